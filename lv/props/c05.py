"""C05 - templates cannot reach Python attributes of context objects.

Context objects are built inside `check()` from the JSON description stored in the case
(`lv/harness/spyobjects.py`): plain instances, `Mapping` drops exposing a strict subset of their
attribute names, `Sequence` drops, `__liquid__`/`__html__` objects and nestings of those in lists
and dicts.  Every Python-only attribute holds / returns `SENTINEL_<id>_<name>`; every attribute
read is logged.  A case is a list of *units*; a unit is one small template probing one lookup site
with names drawn from the union of the objects' attribute names (dunders included).  Each unit is
parsed once and rendered twice (sync, async) so that a failure is attributed to its site.

String-form policy (docs/variables_and_drops.md: a drop is rendered through `__str__`; Python's own
container `str()` uses `__repr__`): `__str__` and `__repr__` are protocol, their text is public.  The
default `object.__repr__` shows a neutral class/module name and an address and is not a leak.  Library
error messages legitimately show `type(x).__name__`, so class names are neutral; the class *object*,
bound methods, module name and function globals carry sentinels of their own (see spyobjects).
"""

from __future__ import annotations

import re
import types
from typing import Any

from hypothesis import strategies as st

from lv.core.runner import Prop
from lv.core.runner import Result
from lv.core.runner import exc_bucket
from lv.harness import spyobjects as so
from lv.harness.envs import make_env
from lv.harness.envs import run_coro

from liquid2 import StrictUndefined
from liquid2.exceptions import LiquidError

MARK = so.MARK

# --------------------------------------------------------------------------- name pools

# Python-only instance attribute names.  Several coincide with names the engine treats specially
# (`size`/`first`/`last`, forloop keys, Undefined/Expression API) on purpose.
ATTR_POOL = ["secret", "password", "api_key", "_private", "token", "size", "first", "last", "length",
             "index", "name", "it", "poke", "evaluate", "gettext", "value", "path", "hint"]
METHODS = list(so.METHODS)  # defined on every instrumented class (str / datetime API names included)
PROPS = list(so.PROPS)
CATTRS = list(so.CATTRS)
CLASS_LEVEL = METHODS + PROPS + CATTRS
EXPOSED = ["title", "n", "tags", "child", "kids", "f0", "f1"]
DUNDERS = ["_fields", "_asdict", "count", "__class__", "__dict__", "__init__", "__globals__", "__subclasses__", "__module__", "__doc__",
           "__mro__", "__bases__", "__name__", "__qualname__", "__self__", "__func__", "__code__",
           "__builtins__", "__getattribute__", "__reduce__", "__str__", "__repr__", "__getitem__", "__len__",
           "__liquid__", "__html__", "__slots__", "__weakref__", "_lv_exposed", "_lv_items", "_lv_watch"]
SPECIAL = ["first", "last", "size"]
CHAINS = [["__class__", "__name__"], ["__class__", "__mro__"], ["__class__", "__subclasses__"],
          ["__init__", "__globals__"], ["__class__", "__init__", "__globals__"], ["__dict__", "secret"],
          ["__class__", "__dict__"], ["__init__", "__globals__", "GLOBAL_SENTINEL"], ["__class__", "__module__"]]

TARGETS = ["p", "m", "s", "q", "r", "rs[0]", "rs.last", "r[1]", "objs[0]", "objs.first", "objs.last", "objs[1]", "d.a", "d.b[0]", "d.b.first",
           "s[0]", "s.first", "s.last", "m.child", "m.kids[0]", "ms[1]", "ms.first", "objs[0].child"]
LISTS = ["objs", "ms", "rs", "r", "d.b", "s", "m.kids", "m", "p", "q", "d", "objs[0].kids", "m.tags"]
KEY_FILTERS = ["map", "where", "reject", "sort", "sort_natural", "sort_numeric", "sum", "uniq", "compact",
               "find", "find_index", "has"]
VALUE_FILTERS = frozenset(["where", "reject", "find", "find_index", "has"])
TAILS = ["", " | join: ','", " | size", " | json", " | first", " | map: 'title' | join: ','", " | last"]
STRING_FILTERS = ["append", "prepend", "upcase", "downcase", "capitalize", "replace", "remove", "split", "strip",
                  "truncate", "slice", "escape", "url_encode", "strip_html", "newline_to_br", "base64_encode",
                  "truncatewords", "replace_first", "lstrip", "safe", "escape_once"]
STRING_ARG = frozenset(["append", "prepend", "replace", "remove", "split", "truncate", "slice", "truncatewords",
                        "replace_first"])
MATH_FILTERS = ["plus", "minus", "times", "divided_by", "modulo", "at_least", "at_most", "abs", "ceil", "floor",
                "round"]
MATH_ARG = frozenset(["plus", "minus", "times", "divided_by", "modulo", "at_least", "at_most", "round"])
BABEL_LEFT = ["currency", "money", "decimal", "unit: 'length-meter'", "datetime", "money_with_currency"]
BABEL_KW = [("currency:group_separator", "1234 | currency: group_separator: %s"),
            ("datetime:format", "'now' | datetime: format: %s"),
            ("unit:format", "1 | unit: 'length-meter', format: %s"),
            ("unit:length", "1 | unit: 'length-meter', length: %s"),
            ("decimal:group_separator", "1 | decimal: group_separator: %s"),
            ("unit:measurement", "1 | unit: %s"),
            ("unit:denominator", "1 | unit: 'length-meter', denominator: %s"),
            ("unit:denominator_unit", "1 | unit: 'length-meter', denominator_unit: %s"),
            ("money:group_separator", "1234 | money: group_separator: %s")]
INJECTED_KW = {
    "context": ["t", "gettext", "ngettext: 'b', 2", "unit: 'length-meter'", "currency", "decimal", "datetime", "money",
                "map: x => x.title", "where: x => x.title", "sort: x => x.n", "find: x => x.n", "sum: x => x.n"],
    "environment": ["join: '-'", "date: '%Y'", "json", "escape", "strip_html", "safe", "newline_to_br", "default: 'd'"],
}
TRANS_FILTERS = ["t", "gettext", "ngettext", "pgettext", "npgettext"]
FOR_HIDDEN = ["it", "item", "_index", "step", "_keys", "__class__", "__init__", "__dict__", "__slots__",
              "__module__", "__doc__", "__len__", "__iter__", "keys", "items", "get", "__next__"]
ROW_HIDDEN = ["name", "it", "ncols", "_index", "_row", "_col", "step", "_keys", "__class__", "__init__",
              "__slots__", "__module__", "__doc__", "keys", "items", "__next__"]
CMP_OPS = ["==", "!=", "<", ">", "<=", ">=", "<>"]

# --------------------------------------------------------------------------- permitted protocol names
#
# O2 flags every name read through `__getattribute__` on an instrumented instance that is not listed here.
# OBSERVED was determined empirically: (a) ~90 hand-written benign templates (every built-in filter family,
# for/tablerow, include/render/with/call, translate, comparisons, `contains`, `default`, `json`, `date`; sync +
# async, auto-escape on/off) over all four shapes and (b) 2000 generated cases of this module on the unchanged
# tree logged exactly these names (CPython 3.12; special-method lookups done by the interpreter itself - len(),
# iter(), str(), obj[key], ==, hash(), int() - go through the type and never reach `__getattribute__`):
#   __class__              isinstance() fallback for ABC / tuple-of-type checks           (all shapes)
#   __liquid__             hasattr + call in get_item / is_truthy / _eq / _lt / default   (all shapes)
#   __html__               hasattr in to_liquid_string / markupsafe.escape (auto-escape)  (all shapes)
#   __getitem_async__      hasattr (+ call) in get_item_async                             (all shapes)
#   __getitem__            hasattr() in the filters' `_getitem` helpers after a TypeError (plain/liquid/sequence)
#   force_liquid_default   hasattr (+ read) in the `default` filter                       (all shapes)
#   items                  `.first`, `for`/`tablerow` over a mapping, Mapping.__eq__      (Mapping drops only)
OBSERVED = frozenset(["__class__", "__liquid__", "__html__", "__getitem_async__", "__getitem__",
                      "force_liquid_default"])
# Not observed, but part of the documented protocol (item access, length, iteration, string/number
# conversion, the Mapping API next to `items`); permitted so that another interpreter version doing an explicit
# lookup is not a false alarm.  What they return is public by definition and O1 still applies to everything
# that flows out.  Deliberately NOT permitted: __dict__, __slots__, __init__, __module__, __doc__, __globals__,
# __subclasses__, __mro__, ... - nothing on the unchanged tree reads them.
DOCUMENTED = frozenset(["__len__", "__iter__", "__contains__", "__str__", "__repr__", "__eq__", "__ne__",
                        "__hash__", "__bool__", "__int__", "__index__", "__float__", "__reversed__", "__lt__"])
MAPPING_API = frozenset(["items", "keys", "values", "get"])  # `items` observed, the other three are not
PERMITTED = {
    "plain": OBSERVED | DOCUMENTED,
    "liquid": OBSERVED | DOCUMENTED,
    "sequence": OBSERVED | DOCUMENTED,
    "mapping": OBSERVED | DOCUMENTED | MAPPING_API,
    "record": OBSERVED | DOCUMENTED,
}

RE_SENT = re.compile(MARK + r"(\d+)_(\w+)")

_LEAKY_TYPES = (types.MethodType, types.FunctionType, types.BuiltinFunctionType, types.MethodWrapperType,
                types.WrapperDescriptorType, types.ModuleType, types.MappingProxyType, types.CodeType,
                types.FrameType, property, staticmethod, classmethod)


def scan(value: Any, hits: list[str], budget: list[int], depth: int = 0) -> None:
    """Collect sentinel occurrences in a value handed to / returned by a filter without reading any
    attribute of an instrumented object (plain str / list / tuple / dict are inspected recursively;
    an instrumented instance may legitimately be passed around; a class object, bound method,
    function, module ... is a leak in itself)."""
    if budget[0] <= 0 or depth > 6:
        return
    budget[0] -= 1
    if so.is_spy(value):
        return
    if so.is_spy_class(value):
        hits.append(f"PYOBJ class-object {value!r}")
        return
    t = type(value)
    if t is str or isinstance(value, str):
        m = RE_SENT.search(value)
        if m is not None:
            hits.append(str(value)[max(m.start() - 60, 0): m.end() + 40])
    elif t in (list, tuple):
        for item in value:
            scan(item, hits, budget, depth + 1)
    elif t is dict:
        for k, v in value.items():
            scan(k, hits, budget, depth + 1)
            scan(v, hits, budget, depth + 1)
    elif isinstance(value, _LEAKY_TYPES) or isinstance(value, type):
        hits.append(f"PYOBJ {t.__name__} {getattr(value, '__qualname__', '')}")


class FilterSpy:
    """Wraps a registered filter: inspects left value, arguments and result."""

    __slots__ = ("name", "func", "sink", "with_context", "with_environment", "validate")

    def __init__(self, name: str, func: Any, sink: list[tuple[str, str, str]]) -> None:
        self.name = name
        self.func = func
        self.sink = sink
        self.with_context = getattr(func, "with_context", False)
        self.with_environment = getattr(func, "with_environment", False)
        if hasattr(func, "validate"):
            self.validate = func.validate

    def __call__(self, left: Any, *args: Any, **kwargs: Any) -> Any:
        hits: list[str] = []
        budget = [300]
        scan(left, hits, budget)
        for h in hits:
            self.sink.append((self.name, "left", h))
        hits = []
        for a in args:
            scan(a, hits, budget)
        for k, v in kwargs.items():
            if k not in ("context", "environment"):
                scan(v, hits, budget)
        for h in hits:
            self.sink.append((self.name, "arg", h))
        result = self.func(left, *args, **kwargs)
        hits = []
        scan(result, hits, [300])
        for h in hits:
            self.sink.append((self.name, "result", h))
        return result


class Catalog:
    """A gettext-style translations object; the translated text is data of the case."""

    def __init__(self, singular: str | None, plural: str | None) -> None:
        self.singular = singular
        self.plural = plural

    def gettext(self, message: str) -> str:
        return message if self.singular is None else self.singular

    def ngettext(self, singular: str, plural: str, n: int) -> str:
        if n == 1:
            return singular if self.singular is None else self.singular
        return plural if self.plural is None else self.plural

    def pgettext(self, _ctx: str, message: str) -> str:
        return self.gettext(message)

    def npgettext(self, _ctx: str, singular: str, plural: str, n: int) -> str:
        return self.ngettext(singular, plural, n)


# --------------------------------------------------------------------------- generation

_INTS = [st.integers(0, max(i - 1, 0)) for i in range(0, 80)]
_PCT = st.integers(0, 19)  # percentages are drawn in steps of 5 so that few draws are without effect


def _scalar(v: Any) -> dict[str, Any]:
    return {"shape": "scalar", "value": v}


class Gen:
    def __init__(self, draw: Any, disabled: frozenset[str]) -> None:
        self.draw = draw
        self.disabled = disabled
        self.next_id = 1
        self.pyonly: list[str] = []
        self.used: list[str] = []

    # -- primitive draws
    def pick(self, seq: list[Any]) -> Any:
        return seq[self.draw(_INTS[len(seq)])]

    def pct(self, p: int) -> bool:
        return self.draw(_PCT) * 5 < p

    def roll(self) -> int:
        return self.draw(_PCT) * 5

    # -- objects
    def oid(self) -> int:
        self.next_id += 1
        return self.next_id - 1

    def common(self, custom: bool) -> dict[str, Any]:
        return {"id": self.oid(), "attrs": list(self.attrs), "str": "custom" if custom else "default"}

    def plain(self, custom: bool, magic: bool = False) -> dict[str, Any]:
        d = self.common(custom)
        d.update(shape="plain", magic=magic)
        return d

    def mapping(self, custom: bool, *, deep: bool, use_async: bool = False) -> dict[str, Any]:
        d = self.common(custom)
        oid = d["id"]
        exposed: dict[str, Any] = {
            "title": _scalar(so.public(oid, "title")),
            "n": _scalar(oid),
            "tags": {"shape": "list", "items": [_scalar(f"tag{oid}a"), _scalar(f"tag{oid}b")]},
        }
        if deep:
            exposed["child"] = self.plain(not custom)
            exposed["kids"] = {"shape": "list", "items": [self.mapping(custom, deep=False),
                                                          self.mapping(not custom, deep=False)]}
        d.update(shape="mapping", exposed=exposed, attrs=list(self.attrs) + list(exposed))
        d["async"] = use_async
        return d

    def sequence(self, custom: bool) -> dict[str, Any]:
        d = self.common(custom)
        d.update(shape="sequence", items=[self.mapping(custom, deep=False), _scalar(5), self.plain(custom)])
        return d

    def record(self, custom: bool) -> dict[str, Any]:
        d = self.common(custom)
        oid = d["id"]
        d.update(shape="record", items=[_scalar(so.public(oid, "f0")), self.mapping(custom, deep=False)])
        return d

    def liquid(self, value: Any) -> dict[str, Any]:
        d = self.common(True)
        d.update(shape="liquid", liquid=value, html=f"<i>HTML_{d['id']}</i>")
        return d

    def objects(self) -> dict[str, Any]:
        n_attrs = 1 + self.draw(_INTS[4])
        attrs: list[str] = []
        for _ in range(n_attrs):
            a = self.pick(ATTR_POOL)
            if a not in attrs:
                attrs.append(a)
        self.attrs = attrs
        self.pyonly = attrs + CLASS_LEVEL
        flags = self.draw(_INTS[64])
        comp = self.draw(_INTS[4])
        descs: dict[str, Any] = {
            "p": self.plain(bool(flags & 1), magic=bool(flags & 2)),
            "m": self.mapping(bool(flags & 4), deep=True, use_async=bool(flags & 8)),
            "s": self.sequence(bool(flags & 16)),
            "ms": {"shape": "list", "items": [self.mapping(bool(flags & 32), deep=True),
                                               self.mapping(not flags & 32, deep=False, use_async=True)]},
        }
        liquid_value = self.pick([self.name(), self.name(), 0, 1, "title", True, None])
        descs["q"] = self.liquid(liquid_value)
        first = self.mapping(bool(flags & 1), deep=True)
        second = [self.mapping(False, deep=False), self.plain(True), self.liquid("title"), self.sequence(False)][comp]
        descs["objs"] = {"shape": "list", "items": [first, second, self.mapping(True, deep=False)]}
        descs["d"] = {"shape": "dict", "items": {
            "a": self.mapping(False, deep=False),
            "b": {"shape": "list", "items": [self.plain(True), self.mapping(True, deep=False)]},
            "k": _scalar(self.name()),
        }}
        descs["r"] = self.record(bool(flags & 2))
        descs["rs"] = {"shape": "list", "items": [self.record(not flags & 2), self.record(True)]}
        descs["k"] = _scalar(self.name())
        descs["k2"] = _scalar(self.name())
        descs["ks"] = {"shape": "list", "items": [_scalar(self.name()), _scalar(self.name())]}
        descs["tname"] = _scalar(self.pick(["probe", "probe", self.name(), "STR_1", "nosuch"]))
        descs["n"] = _scalar(2)
        return descs

    # -- names and path pieces
    def name(self) -> str:
        r = self.roll()
        if r < 32:
            n = self.pick(self.attrs)
        elif r < 50:
            n = self.pick(CLASS_LEVEL)
        elif r < 72:
            n = self.pick(DUNDERS)
        elif r < 85:
            n = self.pick(EXPOSED)
        elif r < 93:
            n = self.pick(SPECIAL)
        else:
            n = self.pick(ATTR_POOL + ["GLOBAL_SENTINEL"])
        self.used.append(n)
        return n

    def seg(self, name: str | None = None) -> str:
        """One path segment selecting `name` by dot, quoted bracket or a key supplied as data."""
        r = self.roll()
        if r >= 75:  # the key is data: k, k2, ks, d.k hold names; q.__liquid__() returns one
            return self.pick(["[k]", "[k2]", "[ks[0]]", "[ks.last]", "[d.k]", "[q]", "[ks[1]]"])
        name = self.name() if name is None else name
        if r < 45:
            return "." + name
        q = "'" if r < 60 else '"'
        return f"[{q}{name}{q}]"

    def target(self) -> str:
        return self.pick(TARGETS)

    def tpath(self, allow_bare: bool = True) -> str:
        """A target, usually followed by one or two attribute-naming segments."""
        t = self.target()
        r = self.roll()
        if allow_bare and r < 12:
            return t
        if r < 80:
            return t + self.seg()
        if r < 90:
            return t + self.seg() + self.seg()
        chain = self.pick(CHAINS)
        self.used.extend(chain)
        return t + "".join(self.seg(c) if self.pct(30) else "." + c for c in chain)

    def key(self) -> str:
        """A filter key argument: string literal or data variable."""
        r = self.roll()
        if r < 65:
            return f"'{self.name()}'"
        return self.pick(["k", "k2", "ks[0]", "d.k", "ks.last", "q"])

    def value(self) -> str:
        r = self.roll()
        if r < 30:
            return "'x'"
        if r < 60:
            return self.tpath()
        return self.pick(["1", "nil", "empty", "blank", "true", f"'{MARK}'", "n", "''"])

    def placeholder_text(self) -> str:
        parts = []
        for _ in range(1 + self.draw(_INTS[3])):
            r = self.roll()
            n = self.name()
            root = self.pick(["p", "m", "s", "q", "v", "w", "objs", "d", "r"])
            if r < 40:
                parts.append(f"%({n})s")
            elif r < 55:
                parts.append(f"%({root})s")
            elif r < 75:
                parts.append("{" + root + "." + n + "}")
            elif r < 85:
                parts.append("{" + root + "[" + n + "]}")
            elif r < 93:
                parts.append("{" + n + "}")
            else:
                parts.append(f"%({root}.{n})s")
        return "T: " + " ".join(parts)

    # -- units
    def unit(self) -> dict[str, Any]:  # noqa: PLR0911, PLR0912, PLR0915
        self.used = []
        kind = self.draw(_INTS[36])
        flag = None
        if kind == 0:
            site, src = "path-dot", "{{ %s.%s }}" % (self.target(), self.name())
        elif kind == 1:
            site, src = "path-bracket", "{{ %s['%s'] }}" % (self.target(), self.name())
        elif kind == 2:
            site, src = "path-data-key", "{{ %s%s }}" % (self.target(), self.pick(
                ["[k]", "[k2]", "[ks[0]]", "[ks.last]", "[d.k]", "[q]"]))
        elif kind == 3:
            site, src = "path-chain", "{{ %s%s%s }}" % (self.tpath(allow_bare=False), self.seg(),
                                                         self.seg() if self.pct(30) else "")
        elif kind == 4:
            sp = self.pick(SPECIAL)
            base = self.pick(TARGETS + LISTS)
            site, src = "path-special", "{{ %s.%s%s }}" % (base, sp, self.seg() if self.pct(50) else "")
        elif kind == 5:
            site, src = "root-name", "{{ %s }}{{ %s%s }}" % (self.name(), self.name(), self.seg())
        elif kind in (6, 7, 8):
            f = self.pick(KEY_FILTERS)
            site = "filter-key:" + f
            arg = self.key()
            if f in VALUE_FILTERS and self.pct(50):
                arg += ", " + self.value()
            left = self.pick(LISTS) if self.pct(80) else self.tpath()
            src = "{{ %s | %s: %s%s }}" % (left, f, arg, self.pick(TAILS))
            if self.pct(25):
                src = "{%% assign y = %s | %s: %s %%}{{ y%s }}{{ y | json }}" % (
                    left, f, arg, self.pick(["", ".first", "[0]", "[0]" + self.seg(), ".size"]))
        elif kind in (9, 10):
            f = self.pick(KEY_FILTERS)
            site = "lambda:" + f
            params = self.pick(["x", "x", "(x)", "(x, i)"])
            body = "x" + self.seg() + (self.seg() if self.pct(20) else "")
            if f in VALUE_FILTERS and self.pct(50):
                op = self.pick(CMP_OPS + ["contains", "in"])
                body += f" {op} {self.value()}"
            left = self.pick(LISTS) if self.pct(85) else self.tpath()
            src = "{{ %s | %s: %s => %s%s }}" % (left, f, params, body, self.pick(TAILS))
        elif kind in (11, 12):
            tag = "for" if kind == 11 else "tablerow"
            site = tag
            loopvar = "forloop" if tag == "for" else "tablerowloop"
            it = self.pick(LISTS) if self.pct(70) else self.tpath()
            opts = ""
            if self.pct(25):
                opts = " " + self.pick(["limit", "offset", "cols" if tag == "tablerow" else "limit"]) + ": " + self.tpath()
            if self.pct(15):
                opts += " reversed"
            body = "{{ x%s }}|{{ x[0]%s }}|{{ x[1]%s }}|{{ %s%s }}|{{ x }}" % (
                self.seg(), self.seg(), self.seg(), loopvar, self.seg())
            src = "{%% %s x in %s%s %%}%s;{%% end%s %%}" % (tag, it, opts, body, tag)
        elif kind == 13:
            tag = self.pick(["for", "tablerow"])
            site = "loopdrop:" + tag
            hidden = FOR_HIDDEN if tag == "for" else ROW_HIDDEN
            loopvar = "forloop" if tag == "for" else "tablerowloop"
            h1, h2 = self.pick(hidden), self.pick(hidden)
            self.used.extend([h1, h2])
            inner = "[[F:{{ %s.%s }}]][[F:{{ %s['%s'] }}]]" % (loopvar, h1, loopvar, h2)
            if tag == "for" and self.pct(40):
                h3 = self.pick(FOR_HIDDEN)
                inner += "{%% for y in x.tags %%}[[F:{{ forloop.parentloop.%s }}]]{%% endfor %%}" % h3
            src = "{%% %s x in ms %%}%s{%% end%s %%}" % (tag, inner, tag)
        elif kind == 14:
            site = "include-name"
            src = "{%% include %s %%}" % self.pick(["tname", "k", "ks[0]", self.tpath(), self.tpath(), "d.k"])
        elif kind in (15, 16):
            tag = "include" if kind == 15 else "render"
            site = tag + "-arg"
            r = self.roll()
            if r < 35:
                src = "{%% %s 'probe' with %s as v %%}" % (tag, self.tpath())
            elif r < 55:
                src = "{%% %s 'probe' for %s as v, key: %s %%}" % (tag, self.pick(LISTS), self.key())
            else:
                src = "{%% %s 'probe', v: %s, key: %s %%}" % (tag, self.tpath(), self.key())
        elif kind == 17:
            site = "with"
            src = "{%% with v: %s, w: %s %%}{{ v }}|{{ w%s }}|{{ v%s }}{%% endwith %%}" % (
                self.tpath(), self.target(), self.seg(), self.seg())
        elif kind == 18:
            site = "call"
            src = ("{%% macro mm a, b: %s %%}{{ a%s }}|{{ b }}|{{ b%s }}|{{ args[0]%s }}|{{ kwargs%s }}|"
                   "{{ kwargs.z%s }}{%% endmacro %%}{%% call mm %s, %s, z: %s, %s: 'x' %%}") % (
                self.tpath(), self.seg(), self.seg(), self.seg(), self.seg(), self.seg(),
                self.target(), self.tpath(), self.target(), self.pick(self.attrs + ["zz"]))
        elif kind == 19:
            site = "translate-tag"
            v2 = self.name()
            args = "v: %s, %s: %s" % (self.tpath(), v2, self.target())
            if self.pct(25):
                args += ", count: " + self.pick(["n", "1", "2"])
            if self.pct(20):
                args += ", context: " + self.pick(["'ctx'", self.tpath()])
            text = "Hello {{ v }} and {{ %s }} %%(%s)s" % (v2, self.name())
            plural = "{%% plural %%}Many {{ v }} {{ %s }}" % v2 if self.pct(40) else ""
            src = "{%% translate %s %%}%s%s{%% endtranslate %%}" % (args, text, plural)
        elif kind in (20, 21):
            f = self.pick(TRANS_FILTERS)
            site = "translate-filter:" + f
            left = self.pick(["msg", "msg", "msg2", "'Lit %%(%s)s {p.%s}'" % (self.name(), self.name()), self.tpath()])
            kw = "v: %s, %s: %s" % (self.tpath(), self.name(), self.target())
            if f == "t":
                pos = self.pick(["", "", "'ctx', ", self.tpath() + ", "])
                extra = self.pick(["", "", ", count: n, plural: msg2", ", count: 1, plural: " + self.tpath()])
                src = "{{ %s | t: %s%s%s }}" % (left, pos, kw, extra)
            elif f == "gettext":
                src = "{{ %s | gettext: %s }}" % (left, kw)
            elif f == "ngettext":
                src = "{{ %s | ngettext: %s, %s, %s }}" % (left, self.pick(["msg2", self.tpath()]),
                                                           self.pick(["n", "1", "2"]), kw)
            elif f == "pgettext":
                src = "{{ %s | pgettext: %s, %s }}" % (left, self.pick(["'ctx'", self.tpath()]), kw)
            else:
                src = "{{ %s | npgettext: 'ctx', %s, %s, %s }}" % (left, self.pick(["msg2", self.tpath()]),
                                                                   self.pick(["n", "1", "2"]), kw)
        elif kind == 22:
            site = "json"
            x = self.pick([self.tpath(), self.tpath(), self.pick(LISTS), "d",
                           "%s | map: %s" % (self.pick(LISTS), self.key())])
            src = "{{ %s | json%s }}" % (x, self.pick(["", "", ": 2", ": " + self.tpath()]))
        elif kind == 23:
            site = "default"
            src = "{{ %s | default: %s%s }}" % (self.tpath(), self.pick(["'dflt'", self.tpath(), self.tpath()]),
                                                self.pick(["", "", ", allow_false: true", ", allow_false: " + self.tpath()]))
        elif kind == 24:
            site = "date"
            src = self.pick([
                "{{ %s | date: %s }}" % (self.tpath(), self.key()),
                "{{ %s | date: '%%Y' }}" % self.tpath(),
                "{{ 'now' | date: %s }}" % self.tpath(),
                "{{ %s | date: %s }}" % (self.tpath(), self.tpath()),
            ])
        elif kind == 25:
            site = self.pick(["join", "concat", "size-first-last"])
            if site == "join":
                src = self.pick([
                    "{{ %s | join: %s }}" % (self.pick(LISTS), self.tpath()),
                    "{{ %s | map: %s | join: ',' }}" % (self.pick(LISTS), self.key()),
                    "{{ %s | join }}" % self.tpath(),
                ])
            elif site == "concat":
                src = self.pick([
                    "{{ %s | concat: %s | map: %s | join: ',' }}" % (self.pick(LISTS), self.pick(LISTS), self.key()),
                    "{{ %s | concat: %s | join: ',' }}" % (self.pick(LISTS), self.tpath()),
                ])
            else:
                f = self.pick(["size", "first", "last", "reverse", "compact", "uniq", "sort", "sort_natural", "sum"])
                x = self.pick([self.tpath(), self.pick(LISTS)])
                src = "{%% assign y = %s | %s %%}{{ y }}|{{ y%s }}" % (x, f, self.seg())
        elif kind == 26:
            site = "compare"
            src = "{%% if %s %s %s %%}Y{%% else %%}N{%% endif %%}" % (self.tpath(), self.pick(CMP_OPS), self.value())
        elif kind == 27:
            site = "contains"
            src = self.pick([
                "{%% if %s contains %s %%}Y{%% else %%}N{%% endif %%}" % (self.tpath(), self.key()),
                "{%% if %s contains '%s' %%}Y{%% else %%}N{%% endif %%}" % (self.tpath(allow_bare=False), MARK),
                "{%% if %s in %s %%}Y{%% else %%}N{%% endif %%}" % (self.key(), self.tpath()),
                "{%% if %s contains %s %%}Y{%% else %%}N{%% endif %%}" % (self.pick(LISTS), self.tpath()),
            ])
        elif kind == 28:
            site = "truthy-case-ternary"
            src = self.pick([
                "{%% if %s %%}Y{%% else %%}N{%% endif %%}" % self.tpath(),
                "{%% unless %s and %s %%}Y{%% endunless %%}" % (self.tpath(), self.tpath()),
                "{%% case %s %%}{%% when %s %%}Y{%% when %s %%}Z{%% else %%}N{%% endcase %%}" % (
                    self.tpath(), self.key(), self.tpath()),
                "{{ 'a' if %s else %s }}" % (self.tpath(), self.tpath()),
                "{{ %s if %s }}" % (self.tpath(), self.tpath()),
            ])
        elif kind == 29:
            site = "assign-capture-echo"
            src = self.pick([
                "{%% assign y = %s %%}{{ y }}|{{ y%s }}" % (self.tpath(), self.seg()),
                "{%% capture c %%}{{ %s }}{%% endcapture %%}{{ c }}|{{ c%s }}" % (self.tpath(), self.seg()),
                "{%% echo %s %%}" % self.tpath(),
                "{{ \"a${%s}b${ %s | upcase }\" }}" % (self.tpath(), self.tpath()),
                "{{ %s, %s | join: ',' }}" % (self.tpath(), self.tpath()),
                "{%% cycle %s, 'b' %%}{%% cycle 'g': 'a', %s %%}" % (self.tpath(), self.tpath()),
                "{%% liquid\nassign y = %s\necho y%s\n%%}" % (self.tpath(), self.seg()),
            ])
        elif kind == 30:
            f = self.pick(STRING_FILTERS)
            site = "string-filter:" + f
            if f in STRING_ARG and self.pct(60):
                src = "{{ 'abc def' | %s: %s }}" % (f, self.tpath())
            elif f in STRING_ARG:
                src = "{{ %s | %s: %s }}" % (self.tpath(), f, self.pick(["'b'", "1", self.tpath()]))
            else:
                src = "{{ %s | %s }}" % (self.tpath(), f)
        elif kind == 31:
            f = self.pick(MATH_FILTERS)
            site = "math-filter:" + f
            if f in MATH_ARG and self.pct(50):
                src = "{{ 7 | %s: %s }}" % (f, self.tpath())
            elif f in MATH_ARG:
                src = "{{ %s | %s: 2 }}" % (self.tpath(), f)
            else:
                src = "{{ %s | %s }}" % (self.tpath(), f)
        elif kind == 32:
            pool = [x for x in BABEL_KW if "babel-kwarg:" + x[0] not in self.disabled]
            if self.pct(50) and pool:
                suffix, pattern = self.pick(pool)
                site = "babel-kwarg:" + suffix
                src = "{{ %s }}" % (pattern % self.tpath())
                flag = site
            else:
                f = self.pick(BABEL_LEFT)
                site = "babel-left:" + f.split(":")[0]
                src = "{{ %s | %s }}" % (self.tpath(), f)
        elif kind in (34, 35):
            # the keyword arguments the engine itself passes to filters, supplied by the template instead
            kw = self.pick(["context", "environment"])
            f = self.pick(INJECTED_KW[kw])
            site = "injected-kwarg:" + kw
            src = "{{ %s | %s%s %s: %s }}" % (self.pick(["'a'", "ms", "1", "'now'"]), f, "," if ":" in f else ":", kw,
                                              self.pick(["p", "m", "r", "q", self.tpath()]))
        else:
            site = "range-loop-args"
            src = self.pick([
                "{%% for i in (1..%s) %%}{{ i }}{%% endfor %%}" % self.tpath(),
                "{%% for i in (%s..3) %%}{{ i }}{%% endfor %%}" % self.tpath(),
                "{%% for x in ms limit: %s offset: %s %%}{{ x.title }}{%% endfor %%}" % (self.tpath(), self.tpath()),
                "{%% tablerow x in ms cols: %s %%}{{ x.title }}{%% endtablerow %%}" % self.tpath(),
                "{{ (1..%s) | join: ',' }}" % self.tpath(),
            ])
        unit = {"site": site, "src": src, "names": sorted(set(self.used))}
        if flag:
            unit["flag"] = flag
        return unit


def _render_scalar(v: Any) -> str:
    if v is None:
        return ""
    if isinstance(v, bool):
        return "true" if v else "false"
    return str(v)


def control_unit(descs: dict[str, Any], auto_escape: bool) -> dict[str, Any]:
    """O3: keys the drops DO expose render their values (expected text computed from the description)."""
    m = descs["m"]
    ms = descs["ms"]["items"]
    s = descs["s"]
    q = descs["q"]
    title = m["exposed"]["title"]["value"]
    src = ("[[C1:{{ m.title }}|{{ m['n'] }}|{{ m.tags[1] }}|{{ m.kids[1].title }}]]"
           "[[C2:{{ ms | map: 'title' | join: ',' }}]]"
           "[[C3:{% for x in ms %}{{ x.n }};{% endfor %}]]"
           "[[C4:{{ s.size }}|{{ s[0].title }}|{{ s[1] }}]]"
           "[[C5:{{ q }}|{{ m.size }}]]"
           "[[C6:{{ ms | where: 'title', '" + ms[1]["exposed"]["title"]["value"] + "' | map: 'n' | join: ',' }}|"
           "{{ ms | sum: 'n' }}|{{ ms | map: x => x.title | last }}]]")
    expect = (
        f"[[C1:{title}|{m['exposed']['n']['value']}|{m['exposed']['tags']['items'][1]['value']}|"
        f"{m['exposed']['kids']['items'][1]['exposed']['title']['value']}]]"
        f"[[C2:{','.join(x['exposed']['title']['value'] for x in ms)}]]"
        f"[[C3:{''.join(str(x['exposed']['n']['value']) + ';' for x in ms)}]]"
        f"[[C4:{len(s['items'])}|{s['items'][0]['exposed']['title']['value']}|{s['items'][1]['value']}]]"
        f"[[C5:{q['html'] if auto_escape else 'STR_' + str(q['id'])}|{len(m['exposed'])}]]"
        f"[[C6:{ms[1]['exposed']['n']['value']}|{sum(x['exposed']['n']['value'] for x in ms)}|"
        f"{ms[-1]['exposed']['title']['value']}]]"
    )
    return {"site": "control", "src": src, "expect": expect, "names": []}


@st.composite
def case_strategy(draw: Any, disabled: frozenset[str]) -> dict[str, Any]:
    g = Gen(draw, disabled)
    descs = g.objects()
    cfg = draw(_INTS[16])
    descs["msg"] = _scalar(g.placeholder_text())
    descs["msg2"] = _scalar(g.placeholder_text())
    catalog = {"singular": g.placeholder_text() if g.pct(60) else None,
               "plural": g.placeholder_text() if g.pct(40) else None}
    n_units = 2 + draw(_INTS[5])
    units = [control_unit(descs, bool(cfg & 1))] + [g.unit() for _ in range(n_units)]
    probe = "[{{ v%s }}|{{ v[key] }}|{{ key%s }}|{{ v }}]" % (g.seg(), g.seg())
    return {
        "objects": descs,
        "units": units,
        "src": "".join(u["src"] for u in units),
        "templates": {"probe": probe},
        "catalog": catalog,
        "auto_escape": bool(cfg & 1),
        "undefined": "strict" if cfg & 14 == 14 else "default",
        # Environment(validate_filter_arguments=False): nothing is checked when the template is parsed
        "novalidate": cfg % 5 == 0,
    }


# --------------------------------------------------------------------------- the property

RE_F = re.compile(r"\[\[F:(.*?)\]\]", re.S)
MACHINERY = frozenset(["class", "module", "qualname", "globals"])


def name_classes(descs: dict[str, Any]) -> dict[tuple[int, str], str]:
    """(object id, attribute name) -> attribute name class."""
    out: dict[tuple[int, str], str] = {}

    def walk(d: Any) -> None:
        shape = d["shape"]
        if shape == "scalar":
            return
        if shape == "list":
            for x in d["items"]:
                walk(x)
            return
        if shape == "dict":
            for x in d["items"].values():
                walk(x)
            return
        oid = d["id"]
        exposed = d.get("exposed") or {}
        for n in d.get("attrs") or []:
            if n in exposed:
                out[(oid, n)] = "exposed-key-as-attr"
            elif n in SPECIAL:
                out[(oid, n)] = "instance-attr-special-name"
            else:
                out[(oid, n)] = "instance-attr"
        for n in METHODS:
            out[(oid, n)] = "method"
        for n in PROPS:
            out[(oid, n)] = "property"
        for n in CATTRS:
            out[(oid, n)] = "class-attr"
        for x in exposed.values():
            walk(x)
        for x in d.get("items") or []:
            walk(x)

    for d in descs.values():
        walk(d)
    for n in METHODS:
        out[(0, n)] = "method"
    for n in PROPS:
        out[(0, n)] = "property"
    for n in CATTRS:
        out[(0, n)] = "class-attr"
    return out


class C05(Prop):
    id = "C05"
    title = "Templates cannot reach Python attributes of context objects"
    technique = ("property-based testing: sentinel information-flow oracle + attribute-access log on instrumented "
                 "context objects, filter registry wrapped (Hypothesis)")
    rule = (
        "a case = JSON description of context objects of 6 shapes (plain instance, named-tuple record, Mapping drop exposing a strict "
        "subset of its attributes, Sequence drop, __liquid__/__html__ object, nestings in lists/dicts; 1-4 drawn "
        "instance attributes + 13 methods, 5 properties and 3 class attributes per object, each holding/returning "
        "SENTINEL_<id>_<name>) + a positive-control unit + 2-6 probe units, "
        "each one template for one lookup site (dotted/bracketed/data-keyed/nested/chained path segments, "
        ".first/.last/.size, root names, string and lambda keys of map/where/reject/sort*/sum/uniq/compact/find/"
        "find_index/has, for/tablerow iterables, loop variables and loop drops, include names as data, "
        "include/render/with/call arguments, translate tag and t/gettext/ngettext/pgettext/npgettext variables and "
        "%(name)s / {obj.attr} placeholders in translated text, json, default, date, join, concat, size/first/last, "
        "comparisons, contains/in, truthiness/case/ternary, assign/capture/echo/template strings/array literals, "
        "string, math and babel filters, range and loop arguments) whose names come from the union of the "
        "objects' attribute names, dunders included; every unit is rendered sync and async. Non-trivial: the "
        "access log of at least one unit shows an item lookup with a key that is a Python-only attribute of the "
        "object it reached, or a hasattr('__getitem__'/'__getitem_async__') probe on an object one of the unit's "
        "names is a Python-only attribute of; distinct by SHA-1 of the case"
    )
    assumptions = [
        "string conversions (__str__ and __repr__) are protocol: their text is public; the default object repr "
        "(neutral class and module name, address) is not a leak; type(x).__name__ in error messages is not a leak",
        "O2 permits exactly the attribute names listed in PERMITTED (observed on benign renders + the documented "
        "item/length/iteration/conversion dunders); any other name read through __getattribute__ is a violation",
        "instrumented objects are never bound to the reserved configuration variables (translations, locale, "
        "timezone, currency_code, ...) whose Python API the filters use by design",
        "non-LiquidError exceptions escaping render (C02's concern) are not failures here, but their message is "
        "still searched for sentinels",
        "loop drops (forloop, tablerowloop): names outside their documented key set must render as undefined",
    ]
    batch = 250

    def n_random(self, tier: str) -> int:
        return 20000 if tier == "quick" else 300000

    def strategy(self, tier: str, disabled: frozenset[str]):
        return case_strategy(disabled)

    def budget_s(self, tier: str) -> float:
        return 240 if tier == "quick" else 3000

    # ------------------------------------------------------------------

    def check(self, case: Any, disabled: frozenset[str] = frozenset()) -> Result:  # noqa: PLR0912, PLR0915
        res = Result()
        res.evaluations = 0
        descs = case["objects"]
        classes = name_classes(descs)
        sink: list[tuple[str, str, str]] = []
        env = make_env(
            dict(case.get("templates") or {}),
            shopify=True,
            auto_escape=bool(case.get("auto_escape")),
            undefined=StrictUndefined if case.get("undefined") == "strict" else None,
        )
        if case.get("novalidate"):
            env.validate_filter_arguments = False
        for fname in list(env.filters):
            env.filters[fname] = FilterSpy(fname, env.filters[fname], sink)

        data = {name: so.build(d) for name, d in descs.items()}
        cat = case.get("catalog") or {}
        data["translations"] = Catalog(cat.get("singular"), cat.get("plural"))
        pyonly_by_tag = self._pyonly_by_tag(descs)

        for unit in case["units"]:
            if unit.get("flag") in disabled:
                res.excluded.append(unit["flag"])
                continue
            site = unit["site"]
            src = unit["src"]
            try:
                tmpl = env.from_string(src)
            except LiquidError as err:
                if site == "control":
                    res.fail("O3-control", "control:unparsable", f"{err}")
                res.labels.append("unparsable:" + site.split(":")[0])
                continue
            res.labels.append("site:" + site.split(":")[0])
            for mode in ("sync", "async"):
                so.reset_log()
                del sink[:]
                out: str | None = None
                message = ""
                try:
                    if mode == "sync":
                        out = tmpl.render(**data)
                    else:
                        out = run_coro(tmpl.render_async(**data))
                except LiquidError as err:
                    message = f"{type(err).__name__}: {err}"
                    res.labels.append("liquid-error")
                except RecursionError:
                    message = "RecursionError"
                except Exception as err:  # noqa: BLE001 - a crash is C02's business; its text is still a channel
                    message = f"{type(err).__name__}: {err}"
                    res.labels.append("crash:" + exc_bucket(err))
                log = list(so.LOG)
                so.reset_log()
                res.evaluations += 1
                where = f"{mode}; unit={src!r}"

                # O1 - information flow
                for channel, text in (("output", out or ""), ("error-message", message)):
                    for m in RE_SENT.finditer(text):
                        cls = self._class_of(classes, m)
                        res.fail("O1-leak", f"leak:{site}:{cls}",
                                 f"{m.group(0)} in {channel} ({where}): {text[max(m.start() - 80, 0): m.end() + 40]!r}")
                        break
                for fname, channel, hit in sink:
                    m = RE_SENT.search(hit)
                    cls = self._class_of(classes, m) if m else "python-object"
                    res.fail("O1-leak", f"leak:{site}:{cls}",
                             f"filter {fname!r} {channel} carries {hit!r} ({where})")
                    break

                # O2 - access log
                reported: set[tuple[str, Any]] = set()
                for tag, event, name in log:
                    shape = tag.split("#", 1)[0]
                    oid = int(tag.split("#", 1)[1])
                    if event == "attr":
                        if name in PERMITTED[shape]:
                            continue
                        if (tag, name) in reported:
                            continue
                        reported.add((tag, name))
                        cls = classes.get((oid, name)) or (
                            "unlisted:dunder" if str(name).startswith("__") else "unlisted:name")
                        called = (tag, "call", name) in log
                        res.fail("O2-access", f"access:{site}:{cls}",
                                 f"attribute {name!r} of {tag} was read{' and called' if called else ''} ({where})")
                    elif event in ("call", "class-attr") and (tag, name) not in reported:
                        reported.add((tag, name))
                        cls = classes.get((oid, name), str(name))
                        res.fail("O2-access", f"access:{site}:{event}:{cls}",
                                 f"{event} {name!r} on {tag} ({where})")

                # O3 - positive control
                if site == "control" and out != unit["expect"]:
                    res.fail("O3-control", "control:" + mode, f"expected {unit['expect']!r}, got {out!r} / {message!r}")

                # O4 - loop drops expose their documented keys only
                if site.startswith("loopdrop:") and out is not None:
                    got = RE_F.findall(out)
                    if not got:
                        res.fail("O3-control", "control:loopdrop-vacuous", f"no probe rendered ({where}): {out!r}")
                    for g in got:
                        if g != "":
                            res.fail("O4-loopdrop", f"access:{site}:loop-drop-attribute",
                                     f"hidden loop-drop name resolved to {g!r} ({where})")
                            break

                # non-trivial: a Python-only name actually reached an object
                if not res.nontrivial:
                    names = set(unit.get("names") or [])
                    for tag, event, name in log:
                        po = pyonly_by_tag.get(tag, frozenset())
                        if event == "getitem" and name in po:
                            res.nontrivial = True
                            break
                        if event == "attr" and name in ("__getitem__", "__getitem_async__") and names & po:
                            res.nontrivial = True
                            break
        return res

    # ------------------------------------------------------------------

    @staticmethod
    def _class_of(classes: dict[tuple[int, str], str], m: re.Match[str]) -> str:
        oid, name = int(m.group(1)), m.group(2)
        for end in range(len(name), 0, -1):  # the sentinel may be followed by word characters
            head = name[:end]
            if head in MACHINERY:
                return "dunder-machinery:" + head
            if (oid, head) in classes:
                return classes[(oid, head)]
        return "unknown:" + name

    @staticmethod
    def _pyonly_by_tag(descs: dict[str, Any]) -> dict[str, frozenset[str]]:
        out: dict[str, frozenset[str]] = {}

        def walk(d: Any) -> None:
            shape = d["shape"]
            if shape == "scalar":
                return
            if shape == "list":
                for x in d["items"]:
                    walk(x)
                return
            if shape == "dict":
                for x in d["items"].values():
                    walk(x)
                return
            exposed = d.get("exposed") or {}
            names = {n for n in d.get("attrs") or [] if n not in exposed}
            names.update(CLASS_LEVEL)
            names.update(x for x in DUNDERS if x not in ("__getitem__", "__len__", "__str__", "__repr__",
                                                         "__liquid__", "__html__"))
            out[f"{shape}#{d['id']}"] = frozenset(names)
            for x in exposed.values():
                walk(x)
            for x in d.get("items") or []:
                walk(x)

        for d in descs.values():
            walk(d)
        return out

    def sample(self, case: Any) -> Any:
        return {"units": [u["src"][:160] for u in case["units"][1:4]],
                "shapes": sorted({d["shape"] for d in case["objects"].values()})}


PROP = C05()
