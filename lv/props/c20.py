"""C20 - literals denote exactly what is written; json output decodes to its input.

Four case families (DESIGN section 3, C20), every case plain JSON:

* ``str``   a string value together with the exact spelling of a Liquid literal for it
            (quotes included; every character written raw or by one of its valid escapes),
            placed at one of the string sites of the grammar.  Oracle: the site-specific
            observation (rendered text, data key hit, template loaded, counter found ...)
            is the one the intended value produces.
* ``int`` / ``float``  a numeric spelling at the two numeric parse sites (parse_primitive and
            parse_boolean_primitive).  Oracle: str(int) exactly / shortest repr of the
            correctly rounded double (computed with fractions, not with float()).
* ``json``  a JSON-like value bound to ``x``; json.loads(render("{{ x | json }}")) must be
            type-exactly equal to it, for every ``indent`` form.
* ``neg``   an invalid spelling (reference decoder rejects it) at a string site must raise
            LiquidSyntaxError and nothing else.

The spelling is decoded by a small reference decoder written from the documented escape
set, so a malformed case (hand-edited replay) is a harness error, not a finding.
"""

from __future__ import annotations

import json
import math
import re
from fractions import Fraction
from typing import Any

from hypothesis import strategies as st

from lv.core.runner import Prop
from lv.core.runner import Result
from lv.core.runner import exc_bucket
from lv.harness.envs import make_env
from lv.harness.envs import run_coro

from liquid2.exceptions import LiquidError
from liquid2.exceptions import LiquidSyntaxError
from liquid2.exceptions import TemplateNotFoundError

# --------------------------------------------------------------------------- spelling

SHORT = {"\n": "\\n", "\t": "\\t", "\r": "\\r", "\x08": "\\b", "\x0c": "\\f", "/": "\\/", "\\": "\\\\",
         "$": "\\$"}
SHORT_INV = {v[1]: k for k, v in SHORT.items()}
HEX = "0123456789abcdefABCDEF"
IVAR = "iv"  # the interpolated variable of template-string forms, bound to 7
IVAL = 7


class Invalid(ValueError):
    """Raised by the reference decoder; args[0] is the kind of invalidity."""


def _hex4(cp: int, style: int) -> str:
    h = f"{cp:04x}"
    if style == 1:
        return h.upper()
    if style == 2:
        return "".join(c.upper() if i % 2 == 0 else c for i, c in enumerate(h))
    return h


def u_escape(cp: int, style: int) -> str:
    if cp > 0xFFFF:
        v = cp - 0x10000
        return "\\u" + _hex4(0xD800 + (v >> 10), style) + "\\u" + _hex4(0xDC00 + (v & 0x3FF), style)
    return "\\u" + _hex4(cp, style)


def char_spellings(ch: str, q: str) -> list[str]:
    """Every escape spelling of `ch` inside a `q`-quoted literal (raw form excluded)."""
    out = []
    if ch in SHORT:
        out.append(SHORT[ch])
    if ch == q:
        out.append("\\" + q)
    cp = ord(ch)
    out.extend(u_escape(cp, s) for s in (0, 1, 2))
    return out


def raw_ok(ch: str, q: str, line: bool) -> bool:
    return ch != q and ch != "\\" and not (line and ch in "\n\r")


def spell_char(ch: str, q: str, k: int, line: bool) -> str:
    """k in 0..15: 0-8 raw where raw is possible, otherwise one of the escapes."""
    if k < 9 and raw_ok(ch, q, line):
        return ch
    escs = char_spellings(ch, q)
    return escs[k % len(escs)]


def spell(pairs: list[tuple[str, int]], q: str, line: bool) -> str:
    """Body (no quotes) of a literal; pairs = [(char, k)]."""
    pieces = [spell_char(ch, q, k, line) for ch, k in pairs]
    for i in range(len(pieces) - 1):
        if pieces[i] == "$" and pieces[i + 1] == "{":
            k = pairs[i][1]
            if k % 3 == 2:
                pieces[i + 1] = u_escape(0x7B, k & 1)
            else:
                pieces[i] = ["\\$", "\\u0024"][k & 1]
    return "".join(pieces)


def canon_lit(value: str, line: bool = False) -> str:
    """The plainest single-quoted spelling (independent of spell())."""
    out = []
    for i, ch in enumerate(value):
        if ch == "\\":
            out.append("\\\\")
        elif ch == "'":
            out.append("\\'")
        elif ch == "$" and value[i + 1:i + 2] == "{":
            out.append("\\$")
        elif line and ch == "\n":
            out.append("\\n")
        elif line and ch == "\r":
            out.append("\\r")
        else:
            out.append(ch)
    return "'" + "".join(out) + "'"


def ref_decode(body: str, q: str) -> tuple[str, int, int]:
    """Reference decoder for the body of a `q`-quoted literal without interpolation.

    Returns (value, escaped characters, raw characters); raises Invalid(kind).
    """
    out: list[str] = []
    n_esc = n_raw = 0
    i, n = 0, len(body)
    while i < n:
        c = body[i]
        if c == q:
            raise Invalid("unescaped-quote")
        if c != "\\":
            if c == "$" and body[i + 1:i + 2] == "{":
                raise Invalid("interpolation")
            if ord(c) < 8:
                raise Invalid("ctrl-raw")
            if 0xD800 <= ord(c) <= 0xDFFF:
                raise Invalid("raw-surrogate")
            out.append(c)
            n_raw += 1
            i += 1
            continue
        if i + 1 >= n:
            raise Invalid("trailing-backslash")
        e = body[i + 1]
        if e in SHORT_INV:
            out.append(SHORT_INV[e])
            i += 2
        elif e == q:
            out.append(q)
            i += 2
        elif e in "'\"":
            raise Invalid("wrong-quote-escape")
        elif e == "u":
            digits = body[i + 2:i + 6]
            if len(digits) < 4:
                raise Invalid("truncated-u")
            if any(d not in HEX for d in digits):
                raise Invalid("nonhex-u")
            cp = int(digits, 16)
            if 0xDC00 <= cp <= 0xDFFF:
                raise Invalid("low-first")
            if 0xD800 <= cp <= 0xDBFF:
                if body[i + 6:i + 8] != "\\u":
                    raise Invalid("lone-high")
                low = body[i + 8:i + 12]
                if len(low) < 4:
                    raise Invalid("truncated-u")
                if any(d not in HEX for d in low):
                    raise Invalid("nonhex-u")
                lo = int(low, 16)
                if not 0xDC00 <= lo <= 0xDFFF:
                    raise Invalid("high-nonlow")
                cp = 0x10000 + (((cp & 0x3FF) << 10) | (lo & 0x3FF))
                i += 12
            else:
                i += 6
            if cp < 8:
                raise Invalid("ctrl-esc")
            out.append(chr(cp))
        else:
            raise Invalid("unknown-escape")
        n_esc += 1
    return "".join(out), n_esc, n_raw


def decode_entry(ent: dict[str, Any]) -> tuple[str, int, int]:
    """Decode a case literal entry {v, s, q, at}; `at` = index in s of '${iv}' or None."""
    s, q = ent["s"], ent["q"]
    if len(s) < 2 or s[0] != q or s[-1] != q:
        raise Invalid("not-quoted")
    at = ent.get("at")
    if at is None:
        return ref_decode(s[1:-1], q)
    hole = "${" + IVAR + "}"
    if s[at:at + len(hole)] != hole:
        raise Invalid("bad-hole")
    a = ref_decode(s[1:at], q)
    b = ref_decode(s[at + len(hole):-1], q)
    return a[0] + str(IVAL) + b[0], a[1] + b[1], a[2] + b[2]


# --------------------------------------------------------------------------- sites

# class: "prim" = parsed by parse_primitive / parse_boolean_primitive (template strings allowed);
#        "ident" = lexer path segment, parse_string_or_identifier, parse_string_or_path or the render name
#                  (no interpolation); "range" = numeric strings as range bounds.
PRIM_SITES = [
    "output", "output-tight", "filter-arg", "default-arg", "filter-kwarg-colon", "filter-kwarg-eq", "with-arg",
    "render-arg", "include-arg", "macro-default", "call-arg", "call-kwarg", "when", "when-list", "case-subject",
    "cycle-item", "cycle-item-2nd", "array", "assign", "echo", "liquid-echo", "liquid-assign", "if-left",
    "if-right", "if-ne", "if-grouped", "unless", "elsif", "contains", "in", "ternary-cond", "ternary-then",
    "ternary-else", "ternary-tail-arg", "lambda-eq", "for-iter", "interp-nested", "include-with",
]
IDENT_SITES = [
    "path-key", "path-key-ws", "path-key-deep", "path-nested", "path-in-interp", "path-in-lambda", "path-in-cond",
    "root-bracket", "root-bracket-deep", "include-name", "extends-name", "render-name", "include-alias",
    "include-for-alias", "render-alias", "render-for-alias", "increment-name", "decrement-name", "cycle-group",
    "macro-name", "call-name", "block-name", "endblock-name", "block-override",
]
RANGE_SITES = ["range-for", "range-out"]
LINE_SITES = frozenset(["liquid-echo", "liquid-assign"])
TWO_LIT_SITES = frozenset(["array", "range-for", "range-out"])
# an empty alias is treated by the tags as "no alias" (`self.alias or template.name`); that is tag semantics, not
# literal denotation, so the empty string is not placed there
NONEMPTY_SITES = frozenset(["include-alias", "include-for-alias", "render-alias", "render-for-alias"])
ALL_STRING_SITES = PRIM_SITES + IDENT_SITES + RANGE_SITES
ONCE_SITES = ["output", "path-key", "echo", "assign", "root-bracket", "include-name"]  # literal occurs once, last quote

HM = "HIT|MISS"


def fresh(value: str, *cands: str) -> str:
    for c in cands:
        if c != value:
            return c
    raise AssertionError("no fresh name")


def other_quote(q: str) -> str:
    return '"' if q == "'" else "'"


def two(fn: Any) -> str:
    """Two copies of a HIT/MISS observation: the first against x (equal), the second against y (different)."""
    return fn("x") + "|" + fn("y")


def build(site: str, e0: dict[str, Any], e1: dict[str, Any] | None) -> tuple[str, dict[str, str], dict[str, Any], str]:  # noqa: PLR0911, PLR0912, PLR0915
    """(source, templates, data, expected output) for literal entry e0 (and e1) at `site`."""
    L, V, q = e0["s"], e0["v"], e0["q"]
    T: dict[str, str] = {}
    D: dict[str, Any] = {IVAR: IVAL, "x": V, "y": V + "x"}
    if site == "output":
        return "{{ " + L + " }}", T, D, V
    if site == "output-tight":
        return "{{" + L + "}}", T, D, V
    if site == "filter-arg":
        return "{{ 'a' | append: " + L + " }}", T, D, "a" + V
    if site == "default-arg":
        return "{{ nil | default: " + L + " }}", T, D, V
    if site == "filter-kwarg-colon":
        return "{{ nil | c20kw: k: " + L + " }}", T, D, V
    if site == "filter-kwarg-eq":
        return "{{ nil | c20kw: k=" + L + " }}", T, D, V
    if site == "with-arg":
        return "{% with k: " + L + " %}{{ k }}{% endwith %}", T, D, V
    if site == "render-arg":
        return "{% render 'p', k: " + L + " %}", {"p": "{{ k }}"}, D, V
    if site == "include-arg":
        return "{% include 'p', k: " + L + " %}", {"p": "{{ k }}"}, D, V
    if site == "macro-default":
        return "{% macro m k: " + L + " %}{{ k }}{% endmacro %}{% call m %}", T, D, V
    if site == "call-arg":
        return "{% macro m k %}{{ k }}{% endmacro %}{% call m " + L + " %}", T, D, V
    if site == "call-kwarg":
        return "{% macro m k %}{{ k }}{% endmacro %}{% call m k: " + L + " %}", T, D, V
    if site == "when":
        return two(lambda v: "{% case " + v + " %}{% when " + L + " %}HIT{% else %}MISS{% endcase %}"), T, D, HM
    if site == "when-list":
        return "{% case x %}{% when 1, " + L + " %}HIT{% else %}MISS{% endcase %}", T, D, "HIT"
    if site == "case-subject":
        return two(lambda v: "{% case " + L + " %}{% when " + v + " %}HIT{% else %}MISS{% endcase %}"), T, D, HM
    if site == "cycle-item":
        return "{% cycle " + L + ", 'z' %}", T, D, V
    if site == "cycle-item-2nd":
        return "{% for i in (1..2) %}{% cycle 'z', " + L + " %}{% endfor %}", T, D, "z" + V
    if site == "array":
        assert e1 is not None
        return "{{ " + L + ", " + e1["s"] + " | join: '|' }}", T, D, V + "|" + e1["v"]
    if site == "assign":
        return "{% assign v = " + L + " %}{{ v }}", T, D, V
    if site == "echo":
        return "{% echo " + L + " %}", T, D, V
    if site == "liquid-echo":
        return "{% liquid\n  echo " + L + "\n%}", T, D, V
    if site == "liquid-assign":
        return "{% liquid\n  assign v = " + L + "\n  echo v\n%}", T, D, V
    if site == "if-left":
        return two(lambda v: "{% if " + L + " == " + v + " %}HIT{% else %}MISS{% endif %}"), T, D, HM
    if site == "if-right":
        return two(lambda v: "{% if " + v + " == " + L + " %}HIT{% else %}MISS{% endif %}"), T, D, HM
    if site == "if-ne":
        return ("{% if x != " + L + " %}MISS{% else %}HIT{% endif %}|{% if y <> " + L + " %}MISS{% else %}HIT{% endif %}",
                T, D, HM)
    if site == "if-grouped":
        return two(lambda v: "{% if (" + v + " == " + L + ") %}HIT{% else %}MISS{% endif %}"), T, D, HM
    if site == "unless":
        return two(lambda v: "{% unless " + v + " == " + L + " %}MISS{% else %}HIT{% endunless %}"), T, D, HM
    if site == "elsif":
        return two(lambda v: "{% if false %}{% elsif " + v + " == " + L + " %}HIT{% else %}MISS{% endif %}"), T, D, HM
    if site == "contains":
        D["x"], D["y"] = [V], [V + "x"]
        return two(lambda v: "{% if " + v + " contains " + L + " %}HIT{% else %}MISS{% endif %}"), T, D, HM
    if site == "in":
        D["x"], D["y"] = [V], [V + "x"]
        return two(lambda v: "{% if " + L + " in " + v + " %}HIT{% else %}MISS{% endif %}"), T, D, HM
    if site == "ternary-cond":
        return two(lambda v: "{{ 'HIT' if " + v + " == " + L + " else 'MISS' }}"), T, D, HM
    if site == "ternary-then":
        return "{{ " + L + " if true else 'z' }}", T, D, V
    if site == "ternary-else":
        return "{{ 'z' if false else " + L + " }}", T, D, V
    if site == "ternary-tail-arg":
        return "{{ 'a' if true else 'b' || append: " + L + " }}", T, D, "a" + V
    if site == "lambda-eq":
        D["a"] = [V, V + "x"]
        return "{{ a | where: i => i == " + L + " | join: '|' }}", T, D, V
    if site == "for-iter":
        return "{% for c in " + L + " %}{{ c }}{% endfor %}", T, D, V
    if site == "interp-nested":
        o = other_quote(q)
        return "{{ " + o + "${ " + L + " }" + o + " }}", T, D, V
    if site == "include-with":
        return "{% include 'p' with " + L + " as z %}", {"p": "{{ z }}"}, D, V

    # ---- sites without interpolation; data keyed by the intended value
    if site == "path-key":
        return "{{ d[" + L + "] }}", T, {"d": {V: "HIT", V + "x": "MISS"}}, "HIT"
    if site == "path-key-ws":
        return "{{ d[ " + L + "\t] }}", T, {"d": {V: "HIT"}}, "HIT"
    if site == "path-key-deep":
        return "{{ d.e[" + L + "].f }}", T, {"d": {"e": {V: {"f": "HIT"}}}}, "HIT"
    if site == "path-nested":
        return "{{ d[e[" + L + "]] }}", T, {"d": {"K": "HIT"}, "e": {V: "K"}}, "HIT"
    if site == "path-in-interp":
        o = other_quote(q)
        return "{{ " + o + "<${d[" + L + "]}>" + o + " }}", T, {"d": {V: "HIT"}}, "<HIT>"
    if site == "path-in-lambda":
        return "{{ a | map: i => i[" + L + "] | join: ',' }}", T, {"a": [{V: "HIT"}, {V: "H2"}]}, "HIT,H2"
    if site == "path-in-cond":
        return "{% if d[" + L + "] == 'HIT' %}Y{% else %}N{% endif %}", T, {"d": {V: "HIT"}}, "Y"
    if site == "root-bracket":
        return "{{ [" + L + "] }}", T, {V: "HIT"}, "HIT"
    if site == "root-bracket-deep":
        return "{{ [" + L + "].f }}", T, {V: {"f": "HIT"}}, "HIT"
    if site == "include-name":
        return "{% include " + L + " %}", {V: "HIT", V + "x": "MISS"}, {}, "HIT"
    if site == "extends-name":
        return "{% extends " + L + " %}", {V: "HIT{% block b %}{% endblock %}"}, {}, "HIT"
    if site == "render-name":
        return "{% render " + L + " %}", {V: "HIT", V + "x": "MISS"}, {}, "HIT"
    if site in ("include-alias", "include-for-alias", "render-alias", "render-for-alias"):
        nm = fresh(V, "nm", "nm_")
        v = fresh(V, "v", "v_")
        tag = "include" if site.startswith("include") else "render"
        loop = "-for-" in site
        src = "{% " + tag + " 'p' " + ("for" if loop else "with") + " " + v + " as " + L + " %}"
        return src, {"p": "[{{ [" + nm + "] }}]"}, {nm: V, v: ["HIT", "H2"] if loop else "HIT"}, "[HIT][H2]" if loop else "[HIT]"
    if site == "increment-name":
        nm = fresh(V, "nm", "nm_")
        t = "{% increment " + L + " %}"
        if V in ("now", "today"):  # built-ins shadow counters
            return t + t, T, {}, "01"
        return t + t + "{{ [" + nm + "] }}", T, {nm: V}, "012"
    if site == "decrement-name":
        nm = fresh(V, "nm", "nm_")
        t = "{% decrement " + L + " %}"
        if V in ("now", "today"):
            return t + t, T, {}, "-1-2"
        return t + t + "{{ [" + nm + "] }}", T, {nm: V}, "-1-2-2"
    C = canon_lit(V)
    if site == "cycle-group":
        return "{% cycle " + L + ": 'x', 'y' %}{% cycle " + C + ": 'x', 'y' %}", T, {}, "xy"
    if site == "macro-name":
        return "{% macro " + L + " %}HIT{% endmacro %}{% call " + C + " %}", T, {}, "HIT"
    if site == "call-name":
        return "{% macro " + C + " %}HIT{% endmacro %}{% call " + L + " %}", T, {}, "HIT"
    if site == "block-name":
        return "{% block " + L + " %}HIT{% endblock " + C + " %}", T, {}, "HIT"
    if site == "endblock-name":
        return "{% block " + C + " %}HIT{% endblock " + L + " %}", T, {}, "HIT"
    if site == "block-override":
        return ("{% extends 'base' %}{% block " + L + " %}HIT{% endblock %}",
                {"base": "<{% block " + C + " %}BASE{% endblock %}>"}, {}, "<HIT>")
    if site in ("range-for", "range-out"):
        assert e1 is not None
        try:
            lo, hi = int(V), int(e1["v"])
        except ValueError as err:
            raise AssertionError(f"malformed range case: {err}") from err
        if site == "range-for":
            return ("{% for i in (" + L + ".." + e1["s"] + ") %}{{ i }},{% endfor %}", T, {},
                    "".join(f"{i}," for i in range(lo, hi + 1)))
        return "{{ (" + L + ".." + e1["s"] + ") | join: ',' }}", T, {}, ",".join(str(i) for i in range(lo, hi + 1))
    raise AssertionError(f"unknown site {site!r}")


def _kw_filter(_left: object, *, k: object = None) -> object:
    return k


def execute(src: str, templates: dict[str, str], data: dict[str, Any], mode: str) -> str:
    env = make_env(templates)
    env.filters["c20kw"] = _kw_filter
    tmpl = env.from_string(src)
    if mode == "async":
        return run_coro(tmpl.render_async(data))
    return tmpl.render(data)


# --------------------------------------------------------------------------- numbers

RE_INT = re.compile(r"(-?)([0-9]+)(?:[eE]\+?([0-9]+))?\Z")
RE_FLOAT = re.compile(r"(-?)([0-9]+)(?:\.([0-9]+))?(?:[eE]([+-]?[0-9]+))?\Z")

NUM_PRIM_SITES = ["out", "json", "assign", "arg", "when", "interp", "array", "range"]
NUM_BOOL_SITES = ["if-left", "if-right", "ternary"]


def int_of_spelling(s: str) -> int:
    m = RE_INT.match(s)
    if not m:
        raise AssertionError(f"malformed int spelling {s!r}")
    n = int(m.group(2)) * 10 ** int(m.group(3) or 0)
    return -n if m.group(1) else n


def float_of_spelling(s: str) -> float | None:
    """Correctly rounded double of a FLOAT spelling, via exact rationals; None = out of range."""
    m = RE_FLOAT.match(s)
    if not m or (m.group(3) is None and not (m.group(4) or "").startswith("-")):
        raise AssertionError(f"malformed float spelling {s!r}")
    frac = m.group(3) or ""
    mant = int(m.group(2) + frac)
    exp = int(m.group(4) or 0) - len(frac)
    val = Fraction(mant) * (Fraction(10) ** exp)
    try:
        f = float(val)  # int/int true division: correctly rounded
    except OverflowError:
        return None
    if m.group(1):
        f = -f
    return f


def build_num(site: str, lit: str, x: Any, y: Any, shown: str) -> tuple[str, dict[str, Any], str]:
    D = {"x": x, "y": y}
    if site == "out":
        return "{{ " + lit + " }}", D, shown
    if site == "json":
        return "{{ " + lit + " | json }}", D, shown
    if site == "assign":
        return "{% assign v = " + lit + " %}{{ v }}", D, shown
    if site == "arg":
        return "{{ nil | default: " + lit + " }}", D, shown
    if site == "when":
        return two(lambda v: "{% case " + v + " %}{% when " + lit + " %}T{% else %}F{% endcase %}"), D, "T|F"
    if site == "interp":
        return '{{ "<${' + lit + '}>" }}', D, "<" + shown + ">"
    if site == "array":
        return "{{ " + lit + ", " + lit + " | join: ',' }}", D, shown + "," + shown
    if site == "range":
        return "{% for i in (" + lit + ".." + lit + ") %}{{ i }}{% endfor %}", D, shown
    if site == "if-left":
        return two(lambda v: "{% if " + lit + " == " + v + " %}T{% else %}F{% endif %}"), D, "T|F"
    if site == "if-right":
        return two(lambda v: "{% if " + v + " == " + lit + " %}T{% else %}F{% endif %}"), D, "T|F"
    if site == "ternary":
        return two(lambda v: "{{ 'T' if " + v + " == " + lit + " else 'F' }}"), D, "T|F"
    raise AssertionError(f"unknown numeric site {site!r}")


# --------------------------------------------------------------------------- json

def type_exact_diff(a: Any, b: Any, path: str = "$") -> tuple[str, str] | None:
    """First difference between input a and decoded b: (path, type name of the input there)."""
    if type(a) is not type(b):
        return path, type(a).__name__
    if isinstance(a, dict):
        if sorted(a) != sorted(b):
            return path, "dict"
        for k in a:
            d = type_exact_diff(a[k], b[k], f"{path}.{k!r}")
            if d:
                return d
        return None
    if isinstance(a, list):
        if len(a) != len(b):
            return path, "list"
        for i, (u, v) in enumerate(zip(a, b)):
            d = type_exact_diff(u, v, f"{path}[{i}]")
            if d:
                return d
        return None
    if a != b:
        return path, type(a).__name__
    return None


def depth(v: Any) -> int:
    if isinstance(v, dict):
        return 1 + max((depth(i) for i in v.values()), default=0)
    if isinstance(v, list):
        return 1 + max((depth(i) for i in v), default=0)
    return 0


# --------------------------------------------------------------------------- generators

ATOMS = [
    "'", '"', "\\", "$", "{", "}", "${", "{{", "}}", "{%", "%}", "{#", "#}", "/", "|", "%", "#", "-", ":", ",", ".",
    "[", "]", "(", ")", " ", "\n", "\r", "\t", "\r\n", "\x08", "\x0c", "\x0b", "\x1f", "\x7f", "\x80", "\x85",
    "\xa0", "\\n", "\\u", "\\'", '\\"', "\\\\", "\\$", "u00", "\u00e9", "\u00df", "\u65e5", "\u2028", "\u2029",
    "\ufeff", "\ud7ff", "\ue000", "\uffff", "\ufffd", "\u0301", "\U00010000", "\U0001f600", "\U0010ffff",
    "\U0001d11e", "a", "b", "0", "9", "A", "f", "F", "x", "raw", "endraw", "nil", "true",
]

_char = st.one_of(
    st.sampled_from(ATOMS),
    st.characters(min_codepoint=8, blacklist_categories=("Cs",)),
)
_chunks = st.lists(_char, max_size=8)
_chunks1 = st.lists(_char, min_size=1, max_size=8)
_short = st.lists(_char, max_size=3)
_ks = st.integers(0, 2**64 - 1)  # one spelling choice (4 bits) per character


def pairs_of(chunks: list[str], ks: int, off: int = 0) -> list[tuple[str, int]]:
    text = "".join(chunks)
    return [(ch, (ks >> (4 * ((off + j) % 16))) & 15) for j, ch in enumerate(text)]


def make_entry(pairs: list[tuple[str, int]], q: str, line: bool,
               post: list[tuple[str, int]] | None = None) -> dict[str, Any]:
    body = spell(pairs, q, line)
    value = "".join(ch for ch, _ in pairs)
    if post is None:
        return {"v": value, "s": q + body + q, "q": q, "at": None}
    pbody = spell(post, q, line)
    s = q + body + "${" + IVAR + "}" + pbody + q
    return {"v": value + str(IVAL) + "".join(ch for ch, _ in post), "s": s, "q": q, "at": 1 + len(body)}


SITE_POOL = PRIM_SITES * 4 + IDENT_SITES * 5 + RANGE_SITES * 4
QUOTES = ["'", '"']


@st.composite
def str_case(draw: Any) -> dict[str, Any]:
    site = draw(st.sampled_from(SITE_POOL))
    flags = draw(st.integers(0, 59))
    q, q1 = QUOTES[flags & 1], QUOTES[(flags >> 1) & 1]
    mode = "async" if flags % 3 == 2 else "sync"
    tstr = flags % 5 == 4
    line = site in LINE_SITES
    ks = draw(_ks)
    if site in RANGE_SITES:
        lo = draw(st.integers(-30, 30))
        hi = lo + draw(st.integers(-1, 5))
        e0 = make_entry(pairs_of([str(lo)], ks), q, line)
        e1 = make_entry(pairs_of([str(hi)], ks, 8), q1, line)
        return {"kind": "str", "site": site, "mode": mode, "lits": [e0, e1]}
    chunks = draw(_chunks1 if site in NONEMPTY_SITES else _chunks)
    post = None
    if site in PRIM_SITES and tstr:
        post = pairs_of(draw(_short), ks, 11)
    lits = [make_entry(pairs_of(chunks, ks), q, line, post)]
    if site in TWO_LIT_SITES:
        lits.append(make_entry(pairs_of(draw(_short), ks, 5), q1, line))
    return {"kind": "str", "site": site, "mode": mode, "lits": lits}


BAD_PIECES: dict[str, list[str]] = {
    "lone-high": ["\\ud800", "\\uDBFF", "\\ud83d", "\\uD83Dx", "\\ud800\\n", "\\ud83d\\\\"],
    "high-nonlow": ["\\ud800\\ud800", "\\ud83d\\u0041", "\\uD800\\uDBFF", "\\ud83d\\ue000"],
    "low-first": ["\\udc00", "\\uDFFF", "\\ude00\\ud83d", "\\uDc00"],
    "ctrl-raw": [chr(i) for i in range(8)],
    "ctrl-esc": [f"\\u000{i}" for i in range(8)],
    "unknown-escape": ["\\" + c for c in "qxa0U8eNvB(&{} \u00e9\n-_."] + ["\\\U0001f600", "\\\x00"],
    "wrong-quote-escape": ["\\OTHER"],
    "truncated-u": ["\\u", "\\u1", "\\u12", "\\u123", "\\ud83d\\u", "\\ud83d\\ude0", "\\uD83D\\uDE"],
    "nonhex-u": ["\\u12G4", "\\u+123", "\\u 123", "\\uzzzz", "\\u\uff11\uff12\uff13\uff14", "\\u00-1", "\\u0x41",
                 "\\ud83d\\udeXX"],
    "trailing-backslash": ["\\"],
}
NEG_KINDS = sorted(BAD_PIECES)
NEG_SITES = PRIM_SITES + IDENT_SITES
NEG_POOL = [(k, p) for k in NEG_KINDS for p in BAD_PIECES[k]]


def make_neg(kind: str, piece: str, site: str, q: str, pre: list[tuple[str, int]],
             suf: list[tuple[str, int]] | None) -> dict[str, Any]:
    line = site in LINE_SITES
    piece = piece.replace("OTHER", other_quote(q))
    if kind == "trailing-backslash" or suf is None:
        suffix = ""
    else:
        suffix = "z" + spell(suf, q, line)  # 'z' keeps a truncated \\u escape truncated
    if line and ("\n" in piece or "\r" in piece):
        piece = piece.replace("\n", "q").replace("\r", "q")
    lit = q + spell(pre, q, line) + piece + suffix + q
    return {"kind": "neg", "neg": kind, "site": site, "q": q, "lit": lit, "extra": len(lit) - 2 - len(piece)}


@st.composite
def neg_case(draw: Any) -> dict[str, Any]:
    kind, piece = draw(st.sampled_from(NEG_POOL))
    site = draw(st.sampled_from(ONCE_SITES if kind == "trailing-backslash" else NEG_SITES))
    flags = draw(st.integers(0, 5))
    ks = draw(_ks)
    pre = pairs_of(draw(_short), ks)
    suf = None if flags % 3 == 0 else pairs_of(draw(_short), ks, 8)
    return make_neg(kind, piece, site, QUOTES[flags & 1], pre, suf)


INT_BOUNDARIES = sorted(set(
    [0, 1, 7, 10, 2**31, 2**53 - 1, 2**53, 2**53 + 1, 2**53 + 3, 2**63 - 1, 2**63, 2**63 + 1, 2**64, 2**64 + 1,
     10**40, 10**40 - 1, 123456789012345678901234567890, 9007199254740993, 99999999999999999999999]
    + [10**k for k in range(0, 41)] + [10**k + 1 for k in (15, 16, 17, 22, 23, 30)]
    + [10**k - 1 for k in (16, 17, 23, 39)]
))
BEYOND = [10**308, 10**309, 10**400]  # outside |n| <= 10^40 but named in DESIGN ("1e400 overflows")


def int_spellings(n: int) -> list[str]:
    """Decimal and every exponent spelling of n (sign included)."""
    sign = "-" if n < 0 else ""
    a = abs(n)
    out = [sign + str(a)]
    digits = str(a)
    zeros = len(digits) - len(digits.rstrip("0")) if a else 0
    ks = sorted({0, 1, zeros // 2, zeros} & set(range(0, zeros + 1))) if a else [0, 3]
    for k in ks:
        m = digits[: len(digits) - k] if (k and a) else digits
        for e in ("e", "e+", "E", "E+"):
            out.append(f"{sign}{m}{e}{k}")
    return out


@st.composite
def int_case(draw: Any) -> dict[str, Any]:
    r = draw(st.integers(0, 9))
    if r < 3:
        n = draw(st.sampled_from(INT_BOUNDARIES)) + draw(st.sampled_from([0, 0, 1, -1, 2]))
        n = max(n, 0)
    else:
        nd = draw(st.integers(1, 41))  # log-uniform: number of digits first
        n = draw(st.integers(10 ** (nd - 1) if nd > 1 else 0, min(10**nd - 1, 10**40)))
        if draw(st.integers(0, 3)) == 0:  # multiples of a power of ten get exponent spellings
            z = draw(st.integers(1, nd))
            n = (n // 10**z) * 10**z
    if draw(st.booleans()):
        n = -n
    sp = int_spellings(n)
    lit = sp[draw(st.integers(0, len(sp) - 1))]
    if n == 0 and draw(st.booleans()):
        lit = "-" + lit.lstrip("-")
    site = draw(st.sampled_from(NUM_PRIM_SITES + NUM_BOOL_SITES))
    return {"kind": "int", "site": site, "lit": lit, "n": int_of_spelling(lit)}


FLOAT_FIXED = [
    "1.50", "1e-2", "2.5E+3", "-0.0", "0.0", "1.0", "100.0", "0.1", "0.30000000000000004", "1e-0", "100e-2",
    "1.2e2", "1.2e-2", "1.5e20", "1.0e21", "1.0e22", "1.0e23", "9.999999999999999e22", "123456789.123456789",
    "0.000001", "0.0000001", "1e-7", "5e-324", "2.5e-324", "2.4e-324", "1.7976931348623157e308",
    "4.9406564584124654e-324", "9007199254740993.0", "9007199254740992.5", "0.1e1", "00.5", "1.000000000000000000001",
    "2.2250738585072014e-308", "2.2250738585072011e-308", "-1.5E-10", "-123.456e+2", "3.14159", "1e-400", "-1e-400",
    "179769313486231570000000000000000000000.0", "0.5e+0", "12345678901234567890.0", "1.0E5", "6.02e23", "6.62607015e-34",
]


@st.composite
def float_case(draw: Any) -> dict[str, Any]:
    r = draw(st.integers(0, 9))
    sign = draw(st.sampled_from(["", "", "-"]))
    ip = str(draw(st.integers(0, 10 ** draw(st.integers(0, 18)))))
    if r < 2:
        lit = draw(st.sampled_from(FLOAT_FIXED))
    elif r < 5:
        fp = "".join(draw(st.lists(st.sampled_from("0123456789"), min_size=1, max_size=18)))
        lit = f"{sign}{ip}.{fp}"
    elif r < 8:
        fp = "".join(draw(st.lists(st.sampled_from("0123456789"), min_size=1, max_size=18)))
        e = draw(st.sampled_from(["e", "E"])) + draw(st.sampled_from(["", "+", "-"]))
        lit = f"{sign}{ip}.{fp}{e}{draw(st.integers(0, 300))}"
    else:
        lit = f"{sign}{ip}{draw(st.sampled_from(['e-', 'E-']))}{draw(st.integers(0, 330))}"
    site = draw(st.sampled_from(["out", "json", "assign", "arg", "interp", "if-left", "if-right", "ternary"]))
    return {"kind": "float", "site": site, "lit": lit}


_json_text = st.text(alphabet=st.one_of(st.sampled_from([a for a in ATOMS if len(a) == 1]),
                                        st.characters(min_codepoint=8, blacklist_categories=("Cs",))), max_size=6)
JSON_SPECIAL: list[Any] = [
    None, True, False, 0, 1, -1, 2**53, 2**53 + 1, -(2**53) - 1, 2**63, 2**64 + 1, 10**30, 10**40, 0.0, -0.0, 1.0, 1e16,
    1e22, 1e23, 0.1, 5e-324, 1.7976931348623157e308, 2.0**53, 1e-7, "", "a",
]
INDENT_FORMS = [None, None, ["pos", 0], ["pos", 1], ["pos", 2], ["pos", 3], ["pos", 4], ["kw", 0], ["kw", 2], ["kw", 4],
                ["kweq", 3]]


def _json_shape(rnd: Any, leaves: list[Any], keys: list[str], budget: int, level: int = 0) -> Any:
    """A nested value whose leaves come from `leaves` (Hypothesis draws); the shape from a seeded private PRNG."""
    r = rnd.random()
    if budget <= 1 or level >= 4 or r < (0.1 if level == 0 else 0.4):
        return rnd.choice(leaves)
    n = rnd.randint(0, min(4, budget))
    if r < 0.7:
        return [_json_shape(rnd, leaves, keys, budget // max(n, 1), level + 1) for _ in range(n)]
    out = {}
    for _ in range(n):
        out[rnd.choice(keys)] = _json_shape(rnd, leaves, keys, budget // max(n, 1), level + 1)
    return out


@st.composite
def json_case(draw: Any) -> dict[str, Any]:
    import random

    texts = draw(st.lists(_json_text, min_size=1, max_size=4))
    nums = draw(st.lists(st.one_of(st.integers(-(10**40), 10**40), st.floats(allow_nan=False, allow_infinity=False)),
                         max_size=4))
    seed = draw(st.integers(0, 2**32))
    rnd = random.Random(seed)
    leaves = texts + nums + rnd.sample(JSON_SPECIAL, 4)
    x = _json_shape(rnd, leaves, texts + ["k", ""], budget=12)
    return {"kind": "json", "x": x, "indent": draw(st.sampled_from(INDENT_FORMS))}


JSON_FIXED: list[Any] = [
    None, True, False, 0, 1, -1, 2**53 + 1, -(2**63) - 1, 10**40, 1.0, -0.0, 0.1, 1e23, 5e-324, 1.7976931348623157e308,
    "", "a", "é", " ", "\U0001f600", "'\"\\", "</script>", "\x08\x0c\n\r\t\x1f\x7f", "${x}{{ y }}{% z %}",
    [], {}, [[]], [{}], {"": ""}, {"a": [1, 1.0, True, None, "1"]}, [1, 1.0, True], [0, 0.0, False, -0.0],
    {"k": {"k": {"k": [2**64, {"é": "\U0001d11e"}]}}}, [[1, [2.5, [None, [False, ["x"]]]]]],
    {"true": True, "1": 1, "1.0": 1.0, "null": None}, [9007199254740993, 9007199254740993.0],
]


# --------------------------------------------------------------------------- the property


class C20(Prop):
    id = "C20"
    title = "Literals denote exactly what is written; json output decodes to its input"
    technique = ("property-based testing: round-trip oracle (reference escape decoder / exact rationals / json.loads) over "
                 "generated spellings at every string site (Hypothesis + boundary enumeration)")
    rule = (
        "string cases carry an intended value and the exact literal spelling (each character raw or any of its valid "
        "escapes: short escape, \\uXXXX in lower/upper/mixed hex, surrogate pair, escaped quote) placed at one of "
        f"{len(ALL_STRING_SITES)} string sites, optionally as template-string text around an interpolation; numeric "
        "cases carry a spelling (decimal / e, e+, E exponent / fraction) at both numeric parse sites; json cases carry a "
        "JSON-like value and an indent form; negative cases carry a spelling the reference decoder rejects. "
        "Non-trivial: a string with >= 1 escaped and >= 1 raw character or containing a quote, backslash or ${; an "
        "integer with |n| >= 2^53; a float whose spelling is not its shortest repr; JSON of depth >= 2; a negative "
        "literal with >= 1 valid character besides the invalid piece. Distinct by SHA-1 of the case."
    )
    assumptions = [
        "lone surrogate code points written raw are outside the domain (not Unicode scalar values)",
        "a raw newline or carriage return is not written inside a literal on a {% liquid %} line",
        "float spellings whose correctly rounded value overflows the double range are skipped (no finite float denoted)",
        "identifier sites that need a second reference to the same name (cycle group, macro/call, block/endblock) use "
        "the plainest single-quoted spelling for the other reference; all other sites observe through data",
        "a non-syntax LiquidError other than TemplateNotFoundError for an invalid literal counts as a wrong error; "
        "TemplateNotFoundError counts as the literal having been accepted and evaluated",
        "floats compare with == after a type check (the sign of zero is not part of json equality)",
    ]
    batch = 500

    def n_random(self, tier: str) -> int:
        return 64000 if tier == "quick" else 1900000

    def budget_s(self, tier: str) -> float:
        return 240 if tier == "quick" else 3000

    def strategy(self, tier: str, disabled: frozenset[str]):
        return st.one_of(str_case(), str_case(), str_case(), str_case(), str_case(), str_case(),
                         neg_case(), int_case(), float_case(), json_case())

    # ------------------------------------------------------------------ enumeration

    def enumerate(self, tier: str, disabled: frozenset[str]):  # noqa: PLR0912
        atoms = ["'", '"', "\\", "$", "${", "{{", "}}", "{%", "%}", "{#", "#}", "/", "\n", "\r", "\t", "\x08", "\x0c",
                 "\x0b", "\x1f", "\x7f", "\x80", "\u00e9", "\u2028", "\ud7ff", "\ue000", "\uffff", "\U00010000",
                 "\U0001f600", "\U0010ffff", "\\n", "\\u0041", "\\'", "a"]
        full = tier == "thorough"
        sites = PRIM_SITES + IDENT_SITES
        for site in sites:
            line = site in LINE_SITES
            for q in ("'", '"'):
                if site not in NONEMPTY_SITES:
                    yield {"kind": "str", "site": site, "mode": "sync",
                           "lits": [{"v": "", "s": q + q, "q": q, "at": None}] + (
                               [{"v": "", "s": q + q, "q": q, "at": None}] if site in TWO_LIT_SITES else [])}
                for atom in atoms:
                    # every spelling of the first character of the atom; the rest by rotating choices
                    first = atom[0]
                    opts = ([first] if raw_ok(first, q, line) else []) + char_spellings(first, q)
                    for oi, sp in enumerate(opts):
                        rest = [(c, (oi * 5 + j * 3) % 16) for j, c in enumerate(atom[1:])]
                        tail = spell(rest, q, line)
                        if sp == "$" and tail.startswith("{"):
                            continue  # raw ${ is an interpolation, not this value
                        for wrap in ((False, True) if full or oi % 2 == 0 else (False,)):
                            body = ("a" + sp + tail + "b") if wrap else (sp + tail)
                            value = ("a" + atom + "b") if wrap else atom
                            ent = {"v": value, "s": q + body + q, "q": q, "at": None}
                            lits = [ent]
                            if site in TWO_LIT_SITES:
                                lits.append({"v": "z", "s": "'z'", "q": "'", "at": None})
                            yield {"kind": "str", "site": site, "mode": "sync", "lits": lits}
                        if site in PRIM_SITES and (oi % 4 == 1 or (full and oi % 2 == 0)):
                            body = sp + tail
                            s = q + body + "${" + IVAR + "}" + body + q
                            ent = {"v": atom + str(IVAL) + atom, "s": s, "q": q, "at": 1 + len(body)}
                            lits = [ent] + ([{"v": "z", "s": "'z'", "q": "'", "at": None}] if site in TWO_LIT_SITES else [])
                            yield {"kind": "str", "site": site, "mode": "async", "lits": lits}
        for site in RANGE_SITES:
            for q in ("'", '"'):
                for lo, hi in ((1, 3), (-2, 1), (0, 0), (9, 11), (3, 2)):
                    for k in (0, 9, 10, 11):
                        e0 = make_entry([(c, k) for c in str(lo)], q, False)
                        e1 = make_entry([(c, (k + 1) % 16) for c in str(hi)], other_quote(q), False)
                        yield {"kind": "str", "site": site, "mode": "sync", "lits": [e0, e1]}
        # numbers
        for n in INT_BOUNDARIES + BEYOND:
            for sgn in (1, -1):
                for li, lit in enumerate(int_spellings(sgn * n)):
                    nsites = NUM_PRIM_SITES + NUM_BOOL_SITES
                    for si, site in enumerate(nsites):
                        if n in BEYOND and site not in ("out", "if-left"):
                            continue
                        if not full and site not in ("out", "if-left") and (si + li + n) % len(nsites) != 0:
                            continue  # quick: both parse sites always, the other observation sites in rotation
                        yield {"kind": "int", "site": site, "lit": lit, "n": int_of_spelling(lit)}
        for lit in FLOAT_FIXED:
            for sgn in ("", "-"):
                if sgn and lit.startswith("-"):
                    continue
                for site in ("out", "json", "assign", "arg", "interp", "if-left", "if-right", "ternary"):
                    yield {"kind": "float", "site": site, "lit": sgn + lit}
        for x in JSON_FIXED:
            for form in INDENT_FORMS[1:]:
                yield {"kind": "json", "x": x, "indent": form}
        # negative family
        for kind in NEG_KINDS:
            for piece in BAD_PIECES[kind]:
                for site in (ONCE_SITES if kind == "trailing-backslash" else NEG_SITES):
                    for qi, q in enumerate(("'", '"')):
                        for vi, (pre, suf) in enumerate((([], None), ([("a", 0)], [("b", 0)]))):
                            if full or (qi + vi + len(site)) % 2 == 0:
                                yield make_neg(kind, piece, site, q, pre, suf)

    def enumerated_is_exhaustive(self, tier: str) -> bool:
        return False

    # ------------------------------------------------------------------ oracle

    def check(self, case: Any, disabled: frozenset[str] = frozenset()) -> Result:
        kind = case["kind"]
        if kind == "str":
            return self._check_str(case, disabled)
        if kind == "neg":
            return self._check_neg(case, disabled)
        if kind == "int":
            return self._check_int(case, disabled)
        if kind == "float":
            return self._check_float(case, disabled)
        if kind == "json":
            return self._check_json(case)
        raise AssertionError(f"unknown case kind {kind!r}")

    def _check_str(self, case: Any, disabled: frozenset[str]) -> Result:
        res = Result()
        site = case["site"]
        lits = case["lits"]
        n_esc = n_raw = 0
        for ent in lits:
            try:
                value, e, r = decode_entry(ent)
            except Invalid as err:
                raise AssertionError(f"malformed case: literal {ent['s']!r} is invalid ({err})") from err
            if value != ent["v"]:
                raise AssertionError(f"malformed case: {ent['s']!r} denotes {value!r}, case says {ent['v']!r}")
            if ent.get("at") is not None and site not in PRIM_SITES:
                raise AssertionError(f"malformed case: interpolation at site {site}")
            if site in LINE_SITES and ("\n" in ent["s"] or "\r" in ent["s"]):
                res.labels.append("skipped:raw-newline-on-liquid-line")
                return res
            n_esc += e
            n_raw += r
        e0 = lits[0]
        if site in NONEMPTY_SITES and e0["v"] == "":
            res.labels.append("skipped:empty-alias")
            return res
        qn = "sq" if e0["q"] == "'" else "dq"
        res.labels.append("str:" + site)
        if e0.get("at") is not None:
            res.labels.append("str-form:template-string")
        if site == "render-name" and "render-name" in disabled and "\\" in e0["s"]:
            res.excluded.append("render-name")
            return res
        allv = "".join(ent["v"] for ent in lits)
        res.nontrivial = (n_esc >= 1 and n_raw >= 1) or any(c in allv for c in "'\"\\") or "${" in allv
        src, templates, data, want = build(site, e0, lits[1] if len(lits) > 1 else None)
        bucket = f"string-denotation:{site}:{qn}"
        try:
            got = execute(src, templates, data, case.get("mode", "sync"))
        except LiquidError as err:
            res.fail("string-denotation", bucket,
                     f"literal {e0['s']!r} (intended {e0['v']!r}) at {site}: {type(err).__name__}: "
                     f"{str(err).splitlines()[0] if str(err) else ''} | src={src!r}")
            return res
        except Exception as err:  # noqa: BLE001
            res.fail("string-denotation", bucket,
                     f"literal {e0['s']!r} at {site}: non-Liquid {type(err).__name__}: {err} [{exc_bucket(err)}] | src={src!r}")
            return res
        if got != want:
            res.fail("string-denotation", bucket,
                     f"literal {e0['s']!r} (intended {e0['v']!r}) at {site}: rendered {got!r}, expected {want!r} | src={src!r}")
        if site == "cycle-group" and not res.failures:
            env = make_env({})
            name = env.from_string(src).nodes[0].name  # type: ignore[attr-defined]
            res.evaluations += 1
            if name != e0["v"]:
                res.fail("string-denotation", bucket, f"cycle group name parsed as {name!r}, intended {e0['v']!r} | src={src!r}")
        return res

    def _check_neg(self, case: Any, disabled: frozenset[str]) -> Result:
        res = Result()
        site, q, lit, kind = case["site"], case["q"], case["lit"], case["neg"]
        if len(lit) < 2 or lit[0] != q or lit[-1] != q:
            raise AssertionError("malformed negative case")
        try:
            ref_decode(lit[1:-1], q)
        except Invalid as err:
            ref_kind = str(err)
        else:
            raise AssertionError(f"malformed negative case: {lit!r} is a valid literal")
        if site in LINE_SITES and ("\n" in lit or "\r" in lit):
            res.labels.append("skipped:raw-newline-on-liquid-line")
            return res
        if kind == "trailing-backslash" and site not in ONCE_SITES:
            raise AssertionError("trailing-backslash only at sites where the literal is the last quoted text")
        res.labels.append("neg:" + kind)
        res.labels.append("neg-site:" + site)
        if site == "render-name" and "render-name" in disabled:
            res.excluded.append("render-name")
            return res
        res.nontrivial = case.get("extra", 0) >= 1
        ent = {"v": "k", "s": lit, "q": q, "at": None}
        e1 = {"v": "z", "s": "'z'", "q": "'", "at": None} if site in TWO_LIT_SITES else None
        src, templates, data, _want = build(site, ent, e1)
        if site == "render-name":
            templates = {lit[1:-1]: "HIT"}  # what the tag looks up when it does not decode the name
        acc_bucket = "invalid-literal-accepted:render-name" if site == "render-name" else f"invalid-literal-accepted:{kind}"
        try:
            got = execute(src, templates, data, "sync")
        except LiquidSyntaxError:
            return res
        except TemplateNotFoundError as err:
            res.fail("invalid-literal", acc_bucket,
                     f"invalid literal {lit!r} ({ref_kind}) at {site} was accepted and evaluated: TemplateNotFoundError "
                     f"{str(err).splitlines()[0]!r} | src={src!r}")
            return res
        except LiquidError as err:
            res.fail("invalid-literal", f"invalid-literal-wrong-error:{type(err).__name__}",
                     f"invalid literal {lit!r} ({ref_kind}) at {site}: {type(err).__name__}: "
                     f"{str(err).splitlines()[0] if str(err) else ''} | src={src!r}")
            return res
        except Exception as err:  # noqa: BLE001
            res.fail("invalid-literal", f"invalid-literal-wrong-error:{type(err).__name__}",
                     f"invalid literal {lit!r} ({ref_kind}) at {site}: non-Liquid {type(err).__name__}: {err} "
                     f"[{exc_bucket(err)}] | src={src!r}")
            return res
        res.fail("invalid-literal", acc_bucket,
                 f"invalid literal {lit!r} ({ref_kind}) at {site} was accepted; rendered {got!r} | src={src!r}")
        return res

    def _check_int(self, case: Any, disabled: frozenset[str]) -> Result:
        res = Result()
        lit, site = case["lit"], case["site"]
        n = int_of_spelling(lit)
        if n != case["n"]:
            raise AssertionError(f"malformed case: {lit!r} denotes {n}, case says {case['n']}")
        res.labels.append("int:" + site)
        if abs(n) > 10**40:
            res.labels.append("int:beyond-1e40")
        lossy = abs(n) >= 10**308 or int(float(n)) != n
        if "int-via-float" in disabled and lossy:
            res.excluded.append("int-via-float")
            return res
        res.nontrivial = abs(n) >= 2**53
        fn = "boolean" if site in NUM_BOOL_SITES else "primitive"
        bucket = f"int-denotation:{fn}"
        src, data, want = build_num(site, lit, n, n + 1, str(n))
        try:
            got = execute(src, {}, data, "sync")
        except Exception as err:  # noqa: BLE001
            res.fail("int-denotation", bucket,
                     f"integer literal {lit} at {site}: {type(err).__name__}: {str(err).splitlines()[0] if str(err) else ''} "
                     f"[{exc_bucket(err)}] | src={src!r}")
            return res
        if got != want:
            res.fail("int-denotation", bucket,
                     f"integer literal {lit} (= {n}) at {site}: rendered {got!r}, expected {want!r} | src={src!r}")
        return res

    def _check_float(self, case: Any, disabled: frozenset[str]) -> Result:
        res = Result()
        lit, site = case["lit"], case["site"]
        f = float_of_spelling(lit)
        if f is None or math.isinf(f):
            res.labels.append("skipped:float-out-of-range")
            return res
        res.labels.append("float:" + site)
        shown = repr(f)
        res.nontrivial = shown != lit
        fn = "boolean" if site in NUM_BOOL_SITES else "primitive"
        bucket = f"float-denotation:{fn}"
        y = math.nextafter(f, math.inf)
        src, data, want = build_num(site, lit, f, y, shown)
        try:
            got = execute(src, {}, data, "sync")
        except Exception as err:  # noqa: BLE001
            res.fail("float-denotation", bucket,
                     f"float literal {lit} at {site}: {type(err).__name__}: {str(err).splitlines()[0] if str(err) else ''} "
                     f"[{exc_bucket(err)}] | src={src!r}")
            return res
        if got != want:
            res.fail("float-denotation", bucket,
                     f"float literal {lit} (= {shown}) at {site}: rendered {got!r}, expected {want!r} | src={src!r}")
        elif site == "json":
            back = json.loads(got)
            if type(back) is not float or back != f:
                res.fail("float-denotation", bucket, f"float literal {lit} | json decodes to {back!r}")
        return res

    def _check_json(self, case: Any) -> Result:
        res = Result()
        x, form = case["x"], case["indent"]
        if form is None:
            src = "{{ x | json }}"
        elif form[0] == "pos":
            src = "{{ x | json: " + str(form[1]) + " }}"
        elif form[0] == "kw":
            src = "{{ x | json: indent: " + str(form[1]) + " }}"
        else:
            src = "{{ x | json: indent=" + str(form[1]) + " }}"
        res.labels.append("json:" + ("plain" if form is None else f"{form[0]}-{form[1]}"))
        res.nontrivial = depth(x) >= 2
        tname = type(x).__name__
        try:
            got = execute(src, {}, {"x": x}, "sync")
        except Exception as err:  # noqa: BLE001
            res.fail("json-roundtrip", f"json-roundtrip:{type(err).__name__}",
                     f"{src} with x={x!r}: {type(err).__name__}: {str(err).splitlines()[0] if str(err) else ''} "
                     f"[{exc_bucket(err)}]")
            return res
        try:
            back = json.loads(got)
        except ValueError as err:
            res.fail("json-roundtrip", f"json-roundtrip:invalid-json:{tname}", f"{src} with x={x!r} rendered {got!r}: {err}")
            return res
        d = type_exact_diff(x, back)
        if d is not None:
            res.fail("json-roundtrip", f"json-roundtrip:{d[1]}",
                     f"{src} with x={x!r}: output {got[:300]!r} decodes to {back!r}; first difference at {d[0]}")
        return res

    # ------------------------------------------------------------------ evidence

    def sample(self, case: Any) -> Any:
        kind = case["kind"]
        if kind == "str":
            e = case["lits"][0]
            return {"kind": "str", "site": case["site"], "literal": e["s"][:120], "value": e["v"][:80]}
        if kind == "neg":
            return {"kind": "neg", "site": case["site"], "neg": case["neg"], "literal": case["lit"][:120]}
        if kind == "json":
            return {"kind": "json", "indent": case["indent"], "x": json.dumps(case["x"])[:200]}
        return {k: (str(v)[:80] if k == "n" else v) for k, v in case.items()}


PROP = C20()
