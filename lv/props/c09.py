"""C09 - a render depends only on its inputs, never on earlier or concurrent renders.

A case is a HISTORY: a list of operations over named, long-lived, shared objects
(environment A, environment B, the module-level default environment D, their loaders
and the Template objects obtained from them).  The history is interpreted inside
`check()` - a RuleBasedStateMachine run that is replayable from JSON.  After EVERY step
that produces a result, the same call is made on freshly constructed Environment /
loader / Template objects under the same (fake) clock value and the two outcomes (text
or error class) must be equal.

Case (plain JSON)
    {"t0": epoch seconds, "loaders": {"A": "dict"|"caching", "B": ...},
     "templates": {name: source}      initial loader contents of A and B (edited by the "ed" operation)
     "sources": [source, ...]         pool for from_string / parse()
     "data": [{...}, ...]             pool of render arguments; nested dicts become mapping drops,
                                      lists become sequence drops when the set has "_lists": true
     "h": [op, ...]}

Template reference  tref = [env, kind, key]
    env "A" | "B" | "D" (D = liquid2.DEFAULT_ENVIRONMENT through liquid2.parse())
    kind "s": from_string(sources[key]); kind "g": get_template(key)
    The shared Template object of a tref is created on first use and then reused.

Operations
    ["r",  tref, di]             render(**data[di])
    ["ra", tref, di]             render_async(**data[di]) driven by run_coro
    ["an", tref]                 analyze()
    ["new", tref]                from_string / get_template again (replaces the shared object)
    ["clk", delta]               advance the clock
    ["rf", tref, di, "s"|"a"]    clean run twice (counts the drop accesses N), then for EVERY
                                 k < N: render with a drop that raises at its k-th access,
                                 then render cleanly again on the same shared objects
    ["reg", what]                configure env A only: "filter-new" | "filter-override" |
                                 "tag-new" | "json-default"; B and D must be unaffected
    ["cc", tref, di, dj, sched]  two render_async coroutines of ONE Template, stepped with
                                 send(None); every drop access is a suspension point; `sched`
                                 says which coroutine runs next
    ["mr", si, di]               liquid2.render(sources[si], **data[di])
    ["ed", env, name, n]         the (non-caching) loader of env gets new contents for `name`; fresh objects
                                 are built from the CURRENT contents
    Before and after every history a fixed set of probes and the history's own templates are rendered on
    brand-new objects at the start clock: class- or module-level state left behind by the history shows as a
    difference ("process-wide-state").

Generator flags (`disabled`)
    "date-now"          no 'now' / 'today' string input to the date filter (process-wide memo)
    "date-conflation"   no hand-written pair {{ 1 | date }} / {{ 1.0 | date }} on one environment
                        (same memo: equal keys of different types share an entry)
"""

from __future__ import annotations

import re
import warnings
from collections.abc import Mapping
from collections.abc import Sequence
from typing import Any
from typing import Iterator

from hypothesis import strategies as st

from lv.core.runner import Prop
from lv.core.runner import Result
from lv.gen.grammar import Cfg
from lv.gen.grammar import data_strategy
from lv.gen.grammar import program_strategy
from lv.gen.printer import to_source
from dateutil import parser as _dateutil_parser

from lv.harness.clock import clear_date_memo
from lv.harness.clock import fake_clock
from lv.harness.envs import run_coro
from lv.harness.sched import Yield
from lv.harness.sched import run_alone
from lv.harness.sched import run_schedule

import liquid2
from liquid2 import CachingDictLoader
from liquid2 import DictLoader
from liquid2 import Environment
from liquid2 import Node
from liquid2 import Tag

# --------------------------------------------------------------------------- markers
# Injected statements are wrapped as [[kind:...]] so that a difference between two
# outputs can be attributed to the construct that produced it, and so that
# time-dependent values can be compared with the fake clock directly.

F_FULL = "%Y-%m-%d %H:%M:%S"
F_TIME = "%H:%M:%S"
F_DAY = "%Y-%m-%d"
F_JDAY = "%j %y"

# kind -> (bucket name, strftime format of the expected text or None when not predicted)
TIME_KINDS: dict[str, tuple[str, str | None]] = {
    "n": ("now", F_FULL),
    "nv": ("now", F_FULL),
    "nv1": ("now", F_TIME),
    "t": ("today", F_DAY),
    "tv": ("today", F_DAY),
    "tv1": ("today", F_JDAY),
    "nd0": ("date-now", F_FULL),
    "nd1": ("date-now", F_TIME),
    "nd2": ("date-now", F_JDAY),
    "td0": ("date-today", F_DAY),
    "td1": ("date-today", F_JDAY),
    "ts": ("date-timestamp", None),
    # partial dates: dateutil fills the missing fields from the current day
    "pd0": ("date-partial", ("10:30", F_FULL)),
    "pd1": ("date-partial", ("March 5", F_DAY)),
    "pd2": ("date-partial", ("Friday 7pm", F_FULL)),
}


def expect_time(spec: Any, now: Any) -> str:
    """The text a time-dependent marked value must show when the clock reads `now`."""
    if isinstance(spec, str):
        return str(now.strftime(spec))
    text, fmt = spec
    midnight = now.replace(hour=0, minute=0, second=0, microsecond=0)
    return str(_dateutil_parser.parse(text, default=midnight).strftime(fmt))


STATE_KINDS = {
    "inc": "increment", "dec": "decrement", "cnt": "increment", "cyc": "cycle", "cycn": "cycle-named",
    "off": "offset-continue", "cap": "capture", "asg": "assign", "mac": "macro",
}

TIME_SNIPPETS = [
    "[[n:{{ now }}]]",
    "[[t:{{ today }}]]",
    f"[[nv:{{{{ now | date: '{F_FULL}' }}}}]]",
    f"[[nv1:{{{{ now | date: '{F_TIME}' }}}}]]",
    f"[[tv:{{{{ today | date: '{F_DAY}' }}}}]]",
    f"[[tv1:{{{{ today | date: '{F_JDAY}' }}}}]]",
    "[[ts:{{ 1152098955 | date: '%Y-%m-%d %H:%M' }}]]",
    "[[ts:{{ '1152098955' | date: '%H:%M' }}]]",
    f"[[pd0:{{{{ '10:30' | date: '{F_FULL}' }}}}]]",
    f"[[pd1:{{{{ 'March 5' | date: '{F_DAY}' }}}}]]",
    f"[[pd2:{{{{ 'Friday 7pm' | date: '{F_FULL}' }}}}]]",
]
DATE_NOW_SNIPPETS = [
    f"[[nd0:{{{{ 'now' | date: '{F_FULL}' }}}}]]",
    f"[[nd1:{{{{ 'now' | date: '{F_TIME}' }}}}]]",
    f"[[nd2:{{{{ \"now\" | date: '{F_JDAY}' }}}}]]",
    f"[[td0:{{{{ 'today' | date: '{F_DAY}' }}}}]]",
    f"[[td1:{{{{ 'today' | date: '{F_JDAY}' }}}}]]",
]
STATE_SNIPPETS = [
    "[[inc:{% increment c %}]]",
    "[[inc:{% increment d %}]]",
    "[[dec:{% decrement c %}]]",
    "[[cnt:{{ c }}]]",
    "[[cyc:{% cycle 'a', 'b', 'c' %}]]",
    "[[cyc:{% cycle 1, 2 %}]]",
    "[[cycn:{% cycle g: 'p', 'q', 'r' %}]]",
    "{% for x in nums limit: 1 %}{% endfor %}[[off:{% for x in nums offset: continue %}{{ x }},{% endfor %}]]",
    "{% for x in d.c limit: 2 %}{{ x }}{% endfor %}[[off:{% for x in d.c offset: continue %}{{ x }},{% endfor %}]]",
    "{% capture cv %}{{ cv }}x{% endcapture %}[[cap:{{ cv }}]]",
    "[[asg:{{ av }}]]{% assign av = 'set' %}",
    "[[mac:{% call mm 1 %}]]{% macro mm a %}m{{ a }}{{ d.a }}{% endmacro %}[[mac:{% call mm 2 %}]]",
    "{{ d.a }}",
    "{{ d.e.f }}",
    "{{ user.name }}",
]

RE_MARK = re.compile(r"\[\[([a-z0-9]+):(.*?)\]\]", re.S)
RE_DATE_NOW = re.compile(r"""['"](?:now|today)['"]\s*\|\s*date\b""")
RE_TIME_DEP = re.compile(r"\bnow\b|\btoday\b|\[\[pd\d:")

# fallback attribution when no marker separates the outputs: first construct present
CONSTRUCTS: list[tuple[str, re.Pattern[str]]] = [
    ("extends", re.compile(r"\bextends\b")),
    ("macro", re.compile(r"\bmacro\b|\bcall\b")),
    ("cycle", re.compile(r"\bcycle\b")),
    ("increment", re.compile(r"\bincrement\b")),
    ("decrement", re.compile(r"\bdecrement\b")),
    ("offset-continue", re.compile(r"offset\s*[:=]\s*continue")),
    ("capture", re.compile(r"\bcapture\b")),
    ("assign", re.compile(r"\bassign\b")),
    ("include", re.compile(r"\binclude\b")),
    ("render", re.compile(r"\brender\b")),
    ("date", re.compile(r"\|\s*date\b")),
]
STATEFUL = {"extends", "macro", "cycle", "increment", "decrement", "offset-continue", "capture", "assign"}

# --------------------------------------------------------------------------- fixed templates

BASES = {
    "base": "<[[inc:{% increment bc %}]]|{% block content %}default [[inc:{% increment c %}]]{{ d.a }}{{ block.super }}{% endblock %}|"
            "{% block foot %}foot{% cycle 'x', 'y' %}{{ block.super }}{% endblock %}>",
    "mid": "{% extends 'base' %}{% block content %}mid({{ d.b }}{{ block.super }}){% endblock %}",
    "inc_part": "{% increment c %}{% cycle 'p', 'q' %}{{ d.e.f }}",
    "ren_part": "{% increment c %}{% cycle 'p', 'q' %}{{ p }}{{ d.e.f }}",
}

HAND = [
    # 0 counters
    "[[cnt:{{ c }}]][[inc:{% increment c %}]]{{ d.a }}[[inc:{% increment c %}]][[dec:{% decrement k %}]][[cnt:{{ c }}]]",
    # 1 cycles
    "[[cyc:{% cycle 'a', 'b', 'c' %}]]{{ d.a }}[[cycn:{% cycle g: 1, 2 %}]]"
    "{% for i in (1..2) %}{% cycle 'a', 'b', 'c' %}{{ d.c[i] }}{% endfor %}",
    # 2 offset: continue
    "{% for x in d.c limit: 2 %}{{ x }}{% endfor %}|[[off:{% for x in d.c offset: continue %}{{ x }},{% endfor %}]]",
    # 3 capture / assign
    "{% capture cv %}{{ cv }}{{ d.a }}x{% endcapture %}[[cap:{{ cv }}]]|[[asg:{{ av }}]]{% assign av = d.b %}{{ d.e.f }}",
    # 4 macro / call
    "[[mac:{% call mm d.a %}]]|{% macro mm a %}m{{ a }}{{ d.b }}{% endmacro %}[[mac:{% call mm d.b %}]]",
    # 5 extends / block
    "{% extends 'base' %}{% block content %}{{ d.a }}[[inc:{% increment c %}]]{{ d.e.f }}{{ block.super }}{{ d.b }}{% endblock %}",
    # 6 two level extends
    "{% extends 'mid' %}{% block content %}C{{ d.a }}{{ block.super }}{{ d.b }}{% endblock %}"
    "{% block foot %}{{ d.e.f }}{{ block.super }}{% endblock %}",
    # 7 time
    "[[n:{{ now }}]] [[t:{{ today }}]] " + TIME_SNIPPETS[2] + " " + TIME_SNIPPETS[4] + "{{ d.a }}",
    # 8 date of 'now' (known finding; excluded by the flag "date-now")
    DATE_NOW_SNIPPETS[0] + " " + DATE_NOW_SNIPPETS[3] + "{{ d.a }}" + DATE_NOW_SNIPPETS[1],
    # 9 partials
    "{{ d.a }}{% include 'inc_part' %}[[inc:{% increment c %}]]{{ d.b }}{% render 'ren_part', p: d.a %}[[cyc:{% cycle 'p', 'q' %}]]",
    # 10 LiquidError part-way, after state has been touched
    "[[inc:{% increment c %}]]{{ d.a }}[[cyc:{% cycle 'a', 'b' %}]]{{ d.a | divided_by: 0 }}[[inc:{% increment c %}]]{% include 'nosuch' %}",
    # 11 registry probes
    "{{ d.b | upcase }}{{ d.a | c09x }}|{{ d.e | json }}",
    # 12 custom tag
    "{% c09tag %}[[inc:{% increment c %}]]{{ d.a }}",
    # 13 timestamps
    TIME_SNIPPETS[6] + TIME_SNIPPETS[7] + "{{ d.a }}",
    # 14 extends of a missing base: fails after the block stacks have been built
    "{% extends 'nosuch' %}{% block content %}{{ d.a }}{% endblock %}",
    # 15, 16 equal-but-different date inputs (1 == 1.0): a memo keyed by value conflates them
    "{{ 1 | date: '%Y' }}",
    "{{ 1.0 | date: '%Y' }}",
    # 17 a partial rendered from inside a macro body
    "{% macro mm a %}m{{ a }}{% render 'ren_part', p: a %}{% endmacro %}[[mac:{% call mm d.a %}]]{{ d.b }}",
    # 18, 19 partials that define blocks / extend a base, rendered in an isolated scope
    "{{ d.a }}{% render 'base' %}|{% render 'mid' %}{{ d.b }}",
    "{% for i in (1..2) %}{% render 'mid' %}{% endfor %}{% include 'base' %}",
    # 20 which macro a call site reaches depends on the data of this render
    "{% if d.a > 3 %}{% macro mm a, b: 'B' %}[{{ a }}|{{ b }}|{{ args }}]{% endmacro %}{% else %}"
    "{% macro mm b, a: 'A' %}({{ a }}|{{ b }}|{{ args }}){% endmacro %}{% endif %}[[mac:{% call mm d.a, d.b %}]]{% call mm %}",
    # 21 ... or on the iteration
    "{% for i in (1..3) %}{% if i == 2 %}{% macro mm b, a: 'A' %}({{ a }}|{{ b }}){% endmacro %}{% else %}"
    "{% macro mm a, b: 'B' %}[{{ a }}|{{ b }}]{% endmacro %}{% endif %}{% call mm i, d.a %}{% endfor %}",
    # 22, 23 the same with macros that differ in a default value or in their body only (same parameter names)
    "{% if d.a > 3 %}{% macro mm a, b: 'B' %}[{{ a }}|{{ b }}]{% endmacro %}{% else %}"
    "{% macro mm a, b: d.b %}({{ a }}|{{ b }}){% endmacro %}{% endif %}[[mac:{% call mm d.a %}]]{% call mm %}{% call mm b: 2 %}",
    "{% for i in (1..3) %}{% if i == 2 %}{% macro mm a, b: 'A' %}({{ a }}|{{ b }}){% endmacro %}{% else %}"
    "{% macro mm a, b: i %}[{{ a }}|{{ b }}]{% endmacro %}{% endif %}{% call mm i %}{% call mm %}{% endfor %}",
    # 24 expressions that hold lists of sub-expressions (interpolated strings, array literals, when lists, filter
    # arguments): something that walks the tree - analysis - must leave them as they were
    "{{ \"a${d.a}b${d.b}c\" }}|{% assign arr = d.a, d.b, 3 %}{{ arr | join: ',' }}|{% case d.a %}{% when 7, 1 %}w{% else %}e{% endcase %}"
    "|{{ d.b | append: d.a, | prepend: 'p${d.a}q${d.b}' | replace: 'x', 'y' }}{% for i in d.c limit: 2 offset: 1 %}{{ i }}{% endfor %}",
    # 25 literal text with whitespace around unmarked markup
    "  a \n {{ d.a }} \n b {% if d.a %}  x \n {% endif %}  \n{# c #}  z \n{% raw %}  r  {% endraw %} .",
]
PROCESS_PROBES = (18, 19, 4, 5, 9, 17)  # (the ones that only read first, the ones that might leave something behind last) rendered on brand-new objects before and after every history
HAND_DATE_NOW = {8}
HAND_DATE_CONFLATION = {15, 16}

D_DEFAULT = {"a": 1, "b": "x", "c": [1, 2, 3, 4], "e": {"f": "deep"}}

PROBES: list[tuple[str, str, dict[str, Any], tuple[str, str]]] = [
    # (what, source, data, expected outcome on an environment that was never configured)
    ("filter-registry", "{{ 'a' | upcase }}", {}, ("ok", "A")),
    ("filter-registry", "{{ 'a' | c09x }}", {}, ("err", "UnknownFilterError")),
    ("tag-registry", "{% c09tag %}", {}, ("err", "LiquidSyntaxError")),
    ("filter-instance", "{{ o | json }}", {"o": {"k": {1, 2}}}, ("err", "LiquidTypeError")),
]

FAULT_CAP = 32


# --------------------------------------------------------------------------- drops


class InjectedFault(Exception):
    """Raised by a drop at its k-th access."""


class Ctl:
    """Access counter / fault trigger / suspension switch shared by the drops of one data set."""

    __slots__ = ("n", "fault_at", "suspend")

    def __init__(self, fault_at: int | None = None, suspend: bool = False) -> None:
        self.n = 0
        self.fault_at = fault_at
        self.suspend = suspend

    def hit(self) -> None:
        i = self.n
        self.n = i + 1
        if i == self.fault_at:
            raise InjectedFault(f"access {i}")


class Drop(Mapping):  # type: ignore[type-arg]
    """A read-only mapping; every item access is counted (and may fault / suspend)."""

    __slots__ = ("_d", "_c")

    def __init__(self, d: dict[str, Any], ctl: Ctl) -> None:
        self._d = d
        self._c = ctl

    def __getitem__(self, key: Any) -> Any:
        self._c.hit()
        return self._d[key]

    async def __getitem_async__(self, key: Any) -> Any:
        if self._c.suspend:
            await Yield()
        self._c.hit()
        return self._d[key]

    def __iter__(self) -> Iterator[Any]:
        return iter(self._d)

    def __len__(self) -> int:
        return len(self._d)

    def __str__(self) -> str:
        return "Drop(" + ",".join(str(k) for k in self._d) + ")"

    __repr__ = __str__


class ListDrop(Sequence):  # type: ignore[type-arg]
    """A read-only sequence; every item access (also each step of an iteration) is counted."""

    __slots__ = ("_l", "_c")
    __hash__ = None  # type: ignore[assignment]

    def __init__(self, items: list[Any], ctl: Ctl) -> None:
        self._l = items
        self._c = ctl

    def __getitem__(self, i: Any) -> Any:
        self._c.hit()
        got = self._l[i]
        return ListDrop(got, self._c) if isinstance(got, list) else got

    async def __getitem_async__(self, i: Any) -> Any:
        if self._c.suspend:
            await Yield()
        return self[i]

    def __len__(self) -> int:
        return len(self._l)

    def __eq__(self, other: object) -> bool:
        if isinstance(other, ListDrop):
            return self._l == other._l
        return self._l == other

    def __str__(self) -> str:
        return "ListDrop(" + ",".join(str(x) for x in self._l) + ")"

    __repr__ = __str__


def _wrap(v: Any, ctl: Ctl, lists: bool) -> Any:
    if isinstance(v, dict):
        return Drop({k: _wrap(x, ctl, lists) for k, x in v.items()}, ctl)
    if isinstance(v, list):
        inner = [_wrap(x, ctl, lists) for x in v]
        return ListDrop(inner, ctl) if lists else inner
    return v


def build_data(raw: dict[str, Any], ctl: Ctl) -> dict[str, Any]:
    """Render arguments from their JSON description: nested dicts become drops; with the
    key "_lists" set, lists become sequence drops too."""
    lists = bool(raw.get("_lists"))
    return {k: _wrap(v, ctl, lists) for k, v in raw.items() if k != "_lists"}


# --------------------------------------------------------------------------- env A configuration


def _c09x(val: object) -> str:
    return f"<{val}>"


def _upcase_override(val: object) -> str:
    return f"UP({val})"


def _json_default(_obj: object) -> str:
    return "<obj>"


class _C09Node(Node):
    __slots__ = ()

    def __init__(self, token: Any) -> None:
        super().__init__(token)
        self.blank = False

    def __str__(self) -> str:
        return "{% c09tag %}"

    def render_to_output(self, context: Any, buffer: Any) -> int:
        return buffer.write("<c09tag>")


class _C09Tag(Tag):
    block = False

    def parse(self, stream: Any) -> Node:
        return _C09Node(stream.current())


def apply_reg(env: Environment, what: str, undo: list[Any]) -> None:
    if what == "filter-new":
        env.filters["c09x"] = _c09x
        undo.append(lambda: env.filters.pop("c09x", None))
    elif what == "filter-override":
        old = env.filters.get("upcase")
        env.filters["upcase"] = _upcase_override

        def _restore() -> None:
            if env.filters.get("upcase") is _upcase_override and old is not None:
                env.filters["upcase"] = old

        undo.append(_restore)
    elif what == "tag-new":
        env.tags["c09tag"] = _C09Tag(env)
        undo.append(lambda: env.tags.pop("c09tag", None))
    elif what == "json-default":
        inst = env.filters.get("json")
        if inst is not None and hasattr(inst, "default"):
            old_default = inst.default
            inst.default = _json_default

            def _restore_default() -> None:
                inst.default = old_default

            undo.append(_restore_default)
    else:
        raise ValueError(what)


# --------------------------------------------------------------------------- worlds


class World:
    """Environments A, B, D with their loaders and the Template objects made so far."""

    def __init__(self, case: dict[str, Any], regs: list[str], *, shared: bool, undo: list[Any],
                 edits: dict[str, dict[str, str]] | None = None) -> None:
        self.edits = edits if edits is not None else {}  # env -> {name: current source} (non-caching loaders)
        self.shared = shared
        self.case = case
        self.sources: list[str] = case["sources"]
        self.regs = regs  # configuration applied to env A so far (live list for the shared world)
        self.undo = undo
        self.envs: dict[str, Environment] = {}
        self.objs: dict[tuple[Any, ...], Any] = {}
        if shared:
            for name in ("A", "B", "D"):
                self.env(name)

    def env(self, name: str) -> Environment:
        """Environments of a fresh world are built on demand (A with the configuration
        applied to the shared A so far)."""
        env = self.envs.get(name)
        if env is not None:
            return env
        if name == "D":
            env = liquid2.DEFAULT_ENVIRONMENT if self.shared else Environment()
        else:
            kind = self.case["loaders"].get(name, "dict")
            tm = dict(self.case["templates"])
            tm.update(self.edits.get(name, {}))  # the loader's CURRENT contents
            if kind == "shared" and self.shared and name == "B" and str(self.case["loaders"].get("A")).startswith("caching"):
                # one caching loader object serving two environments (A may have filters/tags B lacks)
                env = Environment(loader=self.env("A").loader)
            else:
                if kind == "caching-nr":  # auto_reload off: a hit is returned without asking anything
                    env = Environment(loader=CachingDictLoader(tm, auto_reload=False))
                else:
                    env = Environment(loader=CachingDictLoader(tm) if kind in ("caching", "shared") else DictLoader(tm))
            if name == "A":
                for what in self.regs:
                    apply_reg(env, what, self.undo)
        self.envs[name] = env
        return env

    def template(self, tref: list[Any], *, renew: bool = False) -> Any:
        key = tuple(tref)
        if not renew and key in self.objs:
            return self.objs[key]
        env, kind, k = tref
        if kind == "s":
            src = self.sources[k % len(self.sources)]
            if env == "D" and self.shared:
                tmpl = liquid2.parse(src)
            else:
                tmpl = self.env(env).from_string(src)
        else:
            tmpl = self.env(env).get_template(k)
        self.objs[key] = tmpl
        return tmpl


Outcome = tuple[str, Any]


def attempt(fn: Any) -> Outcome:
    """('ok', value) | ('err', class name) | ('skip', why)."""
    try:
        return ("ok", fn())
    except RecursionError:
        return ("skip", "RecursionError")
    except Exception as err:  # noqa: BLE001 - the class is the observation
        return ("err", type(err).__name__)


def render_on(world: World, tref: list[Any], raw: dict[str, Any], ctl: Ctl, mode: str) -> Outcome:
    def go() -> str:
        tmpl = world.template(tref)
        data = build_data(raw, ctl)
        if mode == "a":
            return run_coro(tmpl.render_async(**data))
        return tmpl.render(**data)

    return attempt(go)


def analysis_summary(tmpl: Any) -> list[Any]:
    a = tmpl.analyze()
    return [sorted(a.variables), sorted(a.globals), sorted(a.locals), sorted(a.filters), sorted(a.tags)]


def task_outcome(task: Any) -> Outcome:
    if task.error is None:
        return ("ok", task.result)
    if isinstance(task.error, RecursionError):
        return ("skip", "RecursionError")
    if not isinstance(task.error, Exception):
        raise task.error
    return ("err", type(task.error).__name__)


# --------------------------------------------------------------------------- attribution


def closure_text(case: dict[str, Any], src: str) -> str:
    """`src` plus every loader template it can reach by (quoted) name."""
    tm: dict[str, str] = case["templates"]
    seen: set[str] = set()
    text = src
    grew = True
    while grew:
        grew = False
        for name, body in tm.items():
            if name not in seen and (f"'{name}'" in text or f'"{name}"' in text):
                seen.add(name)
                text += "\n" + body
                grew = True
    return text


def constructs_in(text: str) -> list[str]:
    return [name for name, rx in CONSTRUCTS if rx.search(text)]


def attribute(text: str, a: Outcome, b: Outcome) -> str:
    """Name the construct that separates two outcomes of the same call."""
    if a[0] == "ok" and b[0] == "ok" and not (isinstance(a[1], str) and isinstance(b[1], str)):
        return "analysis"  # analyze() summaries (lists), not rendered text
    if a[0] == "ok" and b[0] == "ok":
        ma, mb = RE_MARK.findall(a[1]), RE_MARK.findall(b[1])
        if len(ma) == len(mb) and [k for k, _ in ma] == [k for k, _ in mb]:
            for (k, va), (_k, vb) in zip(ma, mb):
                if va != vb:
                    if k in TIME_KINDS:
                        return TIME_KINDS[k][0]
                    return STATE_KINDS.get(k, k)
            # same markers: the difference lies in unmarked (generated) output
    present = constructs_in(text)
    return present[0] if present else "other"


def show(o: Outcome) -> str:
    return repr(o[1]) if o[0] == "ok" else f"{o[0]}:{o[1]}"


# --------------------------------------------------------------------------- generators

CFG = Cfg(
    max_depth=2, max_stmts=3, budget=7, expr_depth=1, max_filters=2, confusion=0.03,
    counters=True, cycle=True, macros=True, partials=True, offset_continue=True, date=True,
    comments=False, raw=False, liquid_tag=True, quoted_names=False, weird_idents=False,
    tstrings=False, arrays=False,
)
CFG_NOPART = Cfg(**{**CFG.__dict__, "partials": False})


@st.composite
def source_strategy(draw: Any, disabled: frozenset[str], with_partials: bool) -> tuple[str, dict[str, str]]:
    no_date_now = "date-now" in disabled
    r = draw(st.integers(0, 9))
    if r < 3:
        pool = [i for i in range(len(HAND)) if not (no_date_now and i in HAND_DATE_NOW)
                and not ("date-conflation" in disabled and i in HAND_DATE_CONFLATION)]
        return HAND[draw(st.sampled_from(pool))], {}
    prog = draw(program_strategy(CFG if with_partials else CFG_NOPART))
    main = list(prog["main"])
    snippets = STATE_SNIPPETS * 2 + TIME_SNIPPETS + ([] if no_date_now else DATE_NOW_SNIPPETS * 2)
    for _ in range(draw(st.integers(1, 3))):
        snip = draw(st.sampled_from(snippets))
        # never before the macro definitions at the head (keeps `call` after `macro`)
        lo = sum(1 for s in main if s.get("t") == "macro")
        main.insert(draw(st.integers(lo, len(main))), {"t": "rawsrc", "s": snip})
    src = to_source(main, 0)
    w = draw(st.integers(0, 9))
    if w == 0:
        src = "{% extends 'base' %}{% block content %}" + src + "{{ block.super }}{% endblock %}"
    elif w == 1:
        src = "{% extends 'mid' %}{% block content %}" + src + "{% endblock %}{% block foot %}F{{ block.super }}{% endblock %}"
    return src, {k: to_source(v, 0) for k, v in prog["templates"].items()}


def _op_strategy(trefs: list[list[Any]], nsrc: int, ndata: int, disabled: frozenset[str],
                 names: list[str] | None = None) -> Any:
    names = names or sorted(BASES)
    tref = st.one_of(st.just(trefs[0]), st.sampled_from(trefs))
    di = st.integers(0, ndata - 1)
    return st.one_of(
        st.tuples(st.just("r"), tref, di),
        st.tuples(st.just("r"), tref, di),
        st.tuples(st.just("r"), tref, di),
        st.tuples(st.just("ra"), tref, di),
        st.tuples(st.just("clk"), st.sampled_from([1, 59, 61, 3600, 86400, 86400 * 40, 7])),
        st.tuples(st.just("clk"), st.sampled_from([1, 59, 61, 3600, 86400, 86400 * 40, 7])),
        st.tuples(st.just("rf"), tref, di, st.sampled_from(["s", "s", "a"])),
        st.tuples(st.just("an"), tref),
        st.tuples(st.just("new"), tref),
        st.tuples(st.just("reg"), st.sampled_from(["filter-new", "filter-override", "tag-new", "json-default"])),
        st.tuples(st.just("cc"), tref, di, di, st.lists(st.integers(0, 1), max_size=16)),
        st.tuples(st.just("mr"), st.integers(0, nsrc - 1), di),
        st.tuples(st.just("ed"), st.sampled_from(["A", "B"]), st.sampled_from(names), st.integers(0, 3)),
    )


def _listify(x: Any) -> Any:
    if isinstance(x, (tuple, list)):
        return [_listify(y) for y in x]
    return x


@st.composite
def history_case(draw: Any, tier: str, disabled: frozenset[str]) -> dict[str, Any]:
    templates = dict(BASES)
    sources: list[str] = []
    nsrc = draw(st.integers(1, 3))
    for i in range(nsrc):
        src, parts = draw(source_strategy(disabled, i == 0))
        sources.append(src)
        templates.update(parts)
    npages = draw(st.integers(1, 2))
    for i in range(npages):
        src, _parts = draw(source_strategy(disabled, False))
        templates[f"page{i}"] = src
    data = []
    for _ in range(draw(st.integers(1, 2))):
        dd = draw(data_strategy())
        dd["d"] = {"a": draw(st.integers(-2, 9)), "b": draw(st.sampled_from(["x", "apple", "", "é"])),
                   "c": draw(st.lists(st.integers(0, 9), max_size=5)), "e": {"f": draw(st.sampled_from(["deep", "1"]))}}
        if draw(st.booleans()):
            dd["_lists"] = True
        data.append(dd)
    # a small pool of template references; the first is the focus of the history
    cand: list[list[Any]] = []
    for env in ("A", "A", "B", "D"):
        cand.append([env, "s", draw(st.integers(0, nsrc - 1))])
    for env in ("A", "B"):
        cand.append([env, "g", f"page{draw(st.integers(0, npages - 1))}"])
    k = draw(st.integers(1, 4))
    order = draw(st.permutations(list(range(len(cand)))))
    trefs = [cand[j] for j in order[:k]]
    hi = 12 if tier == "quick" else 30
    ops = draw(st.lists(_op_strategy(trefs, nsrc, len(data), disabled, sorted(templates)), min_size=3, max_size=hi))
    return {
        "t0": draw(st.sampled_from([1_000_000_000, 1_152_098_955, 1_700_000_000 - 1, 951_782_399, 86399])),
        "loaders": {"A": draw(st.sampled_from(["dict", "caching", "caching", "caching-nr"])), "B": draw(st.sampled_from(["dict", "caching", "shared"]))},
        "templates": templates,
        "sources": sources,
        "data": data,
        "h": _listify(ops),
    }


def reachable_sources(case: dict[str, Any]) -> list[str]:
    """Source text (with everything it can load) of every template the history touches."""
    out: list[str] = []
    seen: set[tuple[Any, ...]] = set()
    for op in case["h"]:
        if op[0] == "mr":
            ref: tuple[Any, ...] = ("s", op[1])
        elif op[0] in ("r", "ra", "an", "new", "rf", "cc"):
            ref = (op[1][1], op[1][2])
        else:
            continue
        if ref in seen:
            continue
        seen.add(ref)
        if ref[0] == "s":
            src = case["sources"][ref[1] % len(case["sources"])]
        else:
            src = case["templates"].get(ref[1], "")
        out.append(closure_text(case, src))
    return out


def uses_date_now(case: dict[str, Any]) -> bool:
    return any(RE_DATE_NOW.search(text) for text in reachable_sources(case))


# --------------------------------------------------------------------------- the property


class C09(Prop):
    id = "C09"
    title = "A render depends only on its inputs, never on earlier or concurrent renders"
    technique = (
        "stateful property-based testing: generated operation histories over shared Environment / loader / "
        "Template objects, each step compared with the same call on freshly built objects under a fake clock; "
        "exhaustive fault injection at every data access; deterministic coroutine interleaving"
    )
    rule = (
        "a case is a history of 3-12 (quick) / 3-30 (thorough) operations {render, render_async, analyze, "
        "from_string/get_template again, advance clock, render-with-fault at EVERY access index k then clean "
        "render, configure env A (new filter, filter override, new tag, JSON default), concurrent pair of "
        "render_async on one Template under a generated schedule, liquid2.render()} over environments A, B "
        "(DictLoader | CachingDictLoader) and the module-level default environment; templates are grammar "
        "programs with 1-3 injected marked stateful / time-dependent statements (increment, decrement, cycle, "
        "named cycle, offset: continue, capture, assign, macro/call, now, today, 'now'|date, 'today'|date, "
        "timestamps|date), optionally wrapped in extends/block over a one or two level base, plus 17 "
        "hand-written stateful templates, each of which is also run through a fixed 9 step history per "
        "environment kind; a case is non-trivial when the history has >= 3 steps and (a template object with "
        "a stateful construct is rendered twice, or a render follows a failed render on the same environment, "
        "or the clock advances between two renders of a time-dependent template object); distinct by SHA-1"
    )
    assumptions = [
        "outcome = output text or exception class name (any Exception, including the injected fault)",
        "data objects are rebuilt from the JSON description for every render on both sides (caller-data "
        "mutation is C10's subject); loader contents never change during a history (C14's subject)",
        "the fake clock replaces the `datetime` module attribute of liquid2.context and "
        "liquid2.builtin.filters.misc, and of dateutil.parser._parser (the day that completes a partial date)",
        "each Environment owns its loader; one loader object is never shared between environments",
        "tags are resolved at parse time, so only NEW tag names are registered on env A during a history; "
        "filters are resolved at render time, so both new names and an override of `upcase` are registered",
        "the `date` memo is cleared between cases (never inside one) so that cases are independent",
        "at most 32 fault positions per render-with-fault step (label fault-capped counts the truncations)",
    ]
    batch = 100

    def __init__(self) -> None:
        self._steps = 0
        self._renders = 0
        self._fault_points = 0
        self._pairs = 0

    def n_random(self, tier: str) -> int:
        return 3000 if tier == "quick" else 40000

    def strategy(self, tier: str, disabled: frozenset[str]):
        return history_case(tier, disabled)

    def budget_s(self, tier: str) -> float:
        return 240 if tier == "quick" else 3000

    def setup_worker(self) -> None:
        warnings.filterwarnings("ignore", message="coroutine .* was never awaited", category=RuntimeWarning)

    def extra_evidence(self) -> dict[str, Any]:
        return {"operations_executed": self._steps, "renders_executed": self._renders,
                "fault_points_enumerated": self._fault_points, "concurrent_pairs": self._pairs}

    def enumerate(self, tier: str, disabled: frozenset[str]):
        templates = dict(BASES)
        for i, src in enumerate(HAND):
            templates[f"h{i}"] = src
        data = [{"nums": [1, 2, 3], "user": {"name": "n"}, "d": dict(D_DEFAULT)},
                {"_lists": True, "nums": [4, 5], "user": {"name": "m"}, "d": {"a": 7, "b": "apple", "c": [9, 8, 7], "e": {"f": "1"}}}]
        for i in range(len(HAND)):
            if i in HAND_DATE_CONFLATION:
                continue
            for env, kind, lk in (("A", "s", "dict"), ("A", "g", "caching"), ("B", "g", "dict"), ("D", "s", "dict")):
                tref = [env, kind, i if kind == "s" else f"h{i}"]
                hist = [["r", tref, 0], ["r", tref, 0], ["clk", 61], ["ra", tref, 1], ["rf", tref, 0, "s"],
                        ["r", tref, 1], ["cc", tref, 0, 1, [0, 1, 1, 0, 0, 1]], ["clk", 86400 * 40], ["r", tref, 0]]
                yield {"t0": 1_000_000_000, "loaders": {"A": lk, "B": lk}, "templates": templates,
                       "sources": list(HAND), "data": data, "h": hist}
                if env == "A":
                    # static analysis between renders: an odd and an even number of passes over one Template
                    yield {"t0": 1_000_000_000, "loaders": {"A": lk, "B": lk}, "templates": templates,
                           "sources": list(HAND), "data": data,
                           "h": [["an", tref], ["r", tref, 0], ["an", tref], ["an", tref], ["ra", tref, 1],
                                 ["an", tref], ["r", tref, 1]]}
                if tier != "quick":
                    yield {"t0": 951_782_399, "loaders": {"A": lk, "B": lk}, "templates": templates,
                           "sources": list(HAND), "data": data,
                           "h": [["rf", tref, 1, "a"], ["clk", 1], ["ra", tref, 1], ["an", tref], ["new", tref],
                                 ["r", tref, 1]]}
        # one memo entry for 1 and 1.0
        if "date-conflation" not in disabled:
            for env in ("A", "D"):
                yield {"t0": 1_000_000_000, "loaders": {"A": "dict", "B": "dict"}, "templates": templates,
                       "sources": list(HAND), "data": data,
                       "h": [["r", [env, "s", 15], 0], ["r", [env, "s", 16], 0], ["r", [env, "s", 15], 0]]}
        # configuration of env A
        for probe in (11, 12):
            ta, tb, td = ["A", "s", probe], ["B", "s", probe], ["D", "s", probe]
            yield {"t0": 1_000_000_000, "loaders": {"A": "dict", "B": "caching"}, "templates": templates,
                   "sources": list(HAND), "data": data,
                   "h": [["r", tb, 0], ["r", ta, 0], ["reg", "filter-new"], ["reg", "filter-override"],
                         ["reg", "tag-new"], ["reg", "json-default"], ["r", ta, 0], ["r", tb, 0], ["r", td, 0],
                         ["mr", probe, 1], ["new", ta], ["r", ta, 1]]}

        # the loader's contents change between two renders of the same Template object (a partial must be asked
        # for again on every render: nothing may be kept on the parsed template)
        pages = {"pg_render": "R[{% render 'part' %}]", "pg_include": "I[{% include 'part' %}]",
                 "pg_loop": "{% for i in (1..2) %}{% render 'part' %}{% endfor %}",
                 "pg_child": "{% extends 'part_base' %}{% block b %}C{{ block.super }}{% endblock %}",
                 "part": "P0", "part_base": "<{% block b %}B0{% endblock %}>"}
        for page, edited in (("pg_render", "part"), ("pg_include", "part"), ("pg_loop", "part"),
                             ("pg_child", "part_base")):
            tref = ["A", "g", page]
            for hist in ([["r", tref, 0], ["ed", "A", edited, 1], ["r", tref, 0], ["ed", "A", edited, 2], ["ra", tref, 0]],
                         [["ra", tref, 0], ["ed", "A", edited, 1], ["r", tref, 0]],
                         # static analysis walks the partials the loader holds NOW, every time it is asked
                         [["an", tref], ["ed", "A", edited, 1], ["an", tref], ["r", tref, 0], ["an", tref]]):
                yield {"t0": 1_000_000_000, "loaders": {"A": "dict", "B": "dict"}, "templates": {**templates, **pages},
                       "sources": list(HAND), "data": data, "h": hist}

        # one caching loader object shared by two environments, only one of them configured
        wrapped = {**templates, "w11": "{% render 'h11', d: d %}", "w12": "{% include 'h12' %}"}
        for probe in (11, 12, "w11", "w12"):
            pname = probe if isinstance(probe, str) else f"h{probe}"
            ga, gb = ["A", "g", pname], ["B", "g", pname]
            for first, second in ((ga, gb), (gb, ga)):
                for akind in ("caching", "caching-nr"):
                    for rop in ("r", "ra"):
                        yield {"t0": 1_000_000_000, "loaders": {"A": akind, "B": "shared"}, "templates": wrapped,
                               "sources": list(HAND), "data": data,
                               "h": [["reg", "filter-new"], ["reg", "filter-override"], ["reg", "tag-new"],
                                     [rop, first, 0], [rop, second, 0], [rop, first, 0], ["new", second], [rop, second, 1]]}

    # ------------------------------------------------------------------ oracle

    def check(self, case: Any, disabled: frozenset[str] = frozenset()) -> Result:
        res = Result()
        res.evaluations = 0
        if "date-now" in disabled and uses_date_now(case):
            res.excluded.append("date-now")
            return res
        clear_date_memo()  # cases stay independent; never cleared inside a history
        undo: list[Any] = []
        try:
            with fake_clock(int(case["t0"])) as clock:
                self._run(case, clock, res, undo)
        finally:
            for fn in reversed(undo):
                fn()
            clear_date_memo()
        return res

    def _run(self, case: dict[str, Any], clock: Any, res: Result, undo: list[Any]) -> None:  # noqa: PLR0912, PLR0915
        hist: list[list[Any]] = case["h"]
        datas: list[dict[str, Any]] = case["data"]
        regs: list[str] = []
        edits: dict[str, dict[str, str]] = {}
        shared = World(case, regs, shared=True, undo=undo, edits=edits)
        reported: set[str] = set()
        step = 0

        def fresh() -> World:
            return World(case, regs, shared=False, undo=[], edits=edits)

        def fail(oracle: str, bucket: str, detail: str) -> None:
            if bucket in reported:
                return
            reported.add(bucket)
            ops = " ".join(op_str(o) for o in hist[: step + 1])
            res.fail(oracle, bucket, f"step {step} {op_str(hist[step])}: {detail}; clock={clock.t}; history={ops}")

        def src_of(tref: list[Any]) -> str:
            if tref[1] in ("s", "mr"):
                return case["sources"][tref[2] % len(case["sources"])]
            return case["templates"].get(tref[2], "")

        def clock_oracle(o: Outcome, side: str, src: str) -> bool:
            """Time-dependent marked values must show the CURRENT fake clock."""
            if o[0] != "ok" or "[[" not in o[1]:
                return True
            now = clock.real_now()
            good = True
            for kind, val in RE_MARK.findall(o[1]):
                spec = TIME_KINDS.get(kind)
                if spec is None or spec[1] is None:
                    continue
                want = expect_time(spec[1], now)
                if val != want:
                    good = False
                    fail("clock", f"clock:{spec[0]}",
                         f"{side} objects rendered [[{kind}:{val}]] but the clock says {want!r}; src={src!r}")
            return good

        def compare(got: Outcome, want: Outcome, tref_src: str, oracle: str, prefix: str, what: str) -> bool:
            """`got` from the shared objects, `want` from fresh ones.  True when equal."""
            ok_clock = clock_oracle(got, "the shared", tref_src)
            ok_clock = clock_oracle(want, "FRESH", tref_src) and ok_clock
            if "skip" in (got[0], want[0]):
                return True
            if got[0] == want[0] and got[1] == want[1]:
                return True
            construct = attribute(closure_text(case, tref_src), got, want)
            time_buckets = {v[0] for v in TIME_KINDS.values() if v[1] is not None}
            if construct in time_buckets and not ok_clock:
                return False  # already reported under clock:<construct>
            fail(oracle, f"{prefix}:{construct}",
                 f"{what}: shared objects gave {show(got)}, fresh objects give {show(want)}; src={tref_src!r}")
            return False

        # ---- bookkeeping for the non-trivial rule
        renders_of: dict[tuple[Any, ...], int] = {}
        clocks_of: dict[tuple[Any, ...], set[int]] = {}
        gen_of: dict[tuple[Any, ...], int] = {}
        env_failed: dict[str, bool] = {}
        proven: set[tuple[Any, ...]] = set()
        nontrivial = False

        def note_render(tref: list[Any], o: Outcome) -> None:
            nonlocal nontrivial
            self._renders += 1
            res.evaluations += 1
            key = (*tref, gen_of.get(tuple(tref), 0))
            text = closure_text(case, src_of(tref))
            if env_failed.get(tref[0]):
                nontrivial = True
                res.labels.append("render-after-failure")
            renders_of[key] = renders_of.get(key, 0) + 1
            if renders_of[key] >= 2 and STATEFUL.intersection(constructs_in(text)):
                nontrivial = True
            if RE_TIME_DEP.search(text):
                seen = clocks_of.setdefault(key, set())
                if seen and clock.t not in seen:
                    nontrivial = True
                    res.labels.append("time-dependent-after-advance")
                seen.add(clock.t)
            env_failed[tref[0]] = o[0] == "err"

        # ---- process-wide state: what brand-new objects render BEFORE the history ran must be what brand-new
        # objects render after it (same clock, original loader contents).  State that lives in a class or a
        # module poisons "fresh" objects too, so comparing with objects built afterwards cannot see it.
        t_start = clock.t
        probe_trefs: list[list[Any]] = []
        for op in hist:
            if op[0] in ("r", "ra", "rf", "cc", "an", "new") and op[1] not in probe_trefs:
                probe_trefs.append(op[1])
        probe_trefs = probe_trefs[:3]

        def probe_all() -> list[Outcome]:
            clock.set(t_start)
            w = World(case, [], shared=False, undo=[])
            outs = [render_on(w, ["A" if tr[0] == "D" else tr[0], tr[1], tr[2]], datas[0], Ctl(), "s") for tr in probe_trefs]
            outs += [attempt(lambda: Environment(loader=DictLoader(dict(BASES))).from_string(HAND[i]).render(d=D_DEFAULT))  # noqa: B023
                     for i in PROCESS_PROBES]
            return outs

        before = probe_all()
        clock.set(t_start)

        for step, op in enumerate(hist):
            self._steps += 1
            code = op[0]
            res.labels.append("op:" + code)

            if code == "clk":
                clock.advance(int(op[1]))
                continue

            if code == "reg":
                what = op[1]
                apply_reg(shared.env("A"), what, undo)
                regs.append(what)
                for env_name in ("B", "D"):
                    env = shared.env(env_name)
                    for pwhat, psrc, pdata, expect in PROBES:
                        got = attempt(lambda: env.from_string(psrc).render(**pdata))  # noqa: B023
                        res.evaluations += 1
                        if got != expect:
                            fail("cross-env", f"cross-env:{pwhat}",
                                 f"after configuring env A ({what}), env {env_name} renders {psrc!r} as "
                                 f"{show(got)}, expected {show(expect)}")
                # a never configured brand-new environment must not see it either
                env = Environment()
                for pwhat, psrc, pdata, expect in PROBES:
                    got = attempt(lambda: env.from_string(psrc).render(**pdata))  # noqa: B023
                    if got != expect:
                        fail("cross-env", f"cross-env:{pwhat}",
                             f"after configuring env A ({what}), a NEW Environment renders {psrc!r} as "
                             f"{show(got)}, expected {show(expect)}")
                continue

            if code == "ed":
                # the loader's contents change: later renders must see the current contents (the caching
                # loader over a dict has no freshness information and may keep what it loaded - C14's subject -
                # so only non-caching loaders are edited)
                env_name, name, n = op[1], op[2], op[3]
                if case["loaders"].get(env_name, "dict") != "dict" or name not in case["templates"]:
                    res.labels.append("ed:skipped")
                    continue
                # (the new text also mentions a new variable and filter, so that static analysis changes with it)
                new_src = case["templates"][name] + f"<ed{n}>{{{{ edv{n} | append: '' }}}}"
                edits.setdefault(env_name, {})[name] = new_src
                shared.env(env_name).loader.templates[name] = new_src  # type: ignore[attr-defined]
                for key in [k for k in shared.objs if k[0] == env_name and k[1] == "g" and k[2] == name]:
                    del shared.objs[key]  # the caller asks get_template again for the edited page itself
                    gen_of[key] = gen_of.get(key, 0) + 1
                res.labels.append("ed:applied")
                continue

            if code == "mr":
                src = case["sources"][op[1] % len(case["sources"])]
                raw = datas[op[2] % len(datas)]
                got = attempt(lambda: liquid2.render(src, **build_data(raw, Ctl())))  # noqa: B023
                want = attempt(lambda: Environment().from_string(src).render(**build_data(raw, Ctl())))  # noqa: B023
                note_render(["D", "mr", op[1]], got)
                compare(got, want, src, "fresh-objects", "history-dependence", "liquid2.render()")
                continue

            tref = op[1]
            tsrc = src_of(tref)

            if code == "new":
                got = attempt(lambda: shared.template(tref, renew=True) and "made")  # noqa: B023
                want = attempt(lambda: fresh().template(tref) and "made")  # noqa: B023
                gen_of[tuple(tref)] = gen_of.get(tuple(tref), 0) + 1
                res.evaluations += 1
                compare(got, want, tsrc, "fresh-objects", "history-dependence", "from_string/get_template")
                continue

            if code == "an":
                got = attempt(lambda: analysis_summary(shared.template(tref)))  # noqa: B023
                want = attempt(lambda: analysis_summary(fresh().template(tref)))  # noqa: B023
                res.evaluations += 1
                compare(got, want, tsrc, "fresh-objects", "history-dependence", "analyze()")
                continue

            if code in ("r", "ra"):
                mode = "a" if code == "ra" else "s"
                raw = datas[op[2] % len(datas)]
                after_failure = bool(env_failed.get(tref[0]))
                got = render_on(shared, tref, raw, Ctl(), mode)
                want = render_on(fresh(), tref, raw, Ctl(), mode)
                note_render(tref, got)
                key = (*tref, gen_of.get(tuple(tref), 0))
                # "after-failure" only when plain repetition of this object was seen to be harmless
                prefix = "after-failure" if after_failure and key in proven else "history-dependence"
                same = compare(got, want, tsrc, "fresh-objects", prefix,
                               ("render_async" if mode == "a" else "render")
                               + (" following a failed render on this environment" if after_failure else ""))
                if same and not after_failure and renders_of.get(key, 0) >= 2:
                    proven.add(key)
                continue

            if code == "rf":
                raw = datas[op[2] % len(datas)]
                mode = op[3]
                ctl = Ctl()
                got = render_on(shared, tref, raw, ctl, mode)
                n_access = ctl.n
                want = render_on(fresh(), tref, raw, Ctl(), mode)
                note_render(tref, got)
                if not compare(got, want, tsrc, "fresh-objects", "history-dependence", "clean render"):
                    continue
                got2 = render_on(shared, tref, raw, Ctl(), mode)
                note_render(tref, got2)
                if not compare(got2, want, tsrc, "fresh-objects", "history-dependence", "second clean render"):
                    continue
                if n_access > FAULT_CAP:
                    res.labels.append("fault-capped")
                    n_access = FAULT_CAP
                for k in range(n_access):
                    self._fault_points += 1
                    f_got = render_on(shared, tref, raw, Ctl(fault_at=k), mode)
                    f_want = render_on(fresh(), tref, raw, Ctl(fault_at=k), mode)
                    note_render(tref, f_got)
                    res.evaluations += 1
                    if f_got[0] == "err":
                        res.labels.append("faulted-render-failed")
                    if not compare(f_got, f_want, tsrc, "fault-render", "history-dependence",
                                   f"render with a fault at access {k} of {n_access}"):
                        break
                    c_got = render_on(shared, tref, raw, Ctl(), mode)
                    note_render(tref, c_got)
                    if not compare(c_got, want, tsrc, "after-failure", "after-failure",
                                   f"clean render after a render that faulted at access {k} of {n_access} "
                                   f"({show(f_got)})"):
                        break
                continue

            if code == "cc":
                raws = [datas[op[2] % len(datas)], datas[op[3] % len(datas)]]
                sched = [int(x) for x in op[4]]
                # solo first, twice: a difference here is not the scheduler's doing
                got = render_on(shared, tref, raws[0], Ctl(), "a")
                want0 = render_on(fresh(), tref, raws[0], Ctl(), "a")
                note_render(tref, got)
                if not compare(got, want0, tsrc, "fresh-objects", "history-dependence", "solo render_async"):
                    continue
                got = render_on(shared, tref, raws[0], Ctl(), "a")
                note_render(tref, got)
                if not compare(got, want0, tsrc, "fresh-objects", "history-dependence", "second solo render_async"):
                    continue
                tmpl_o = attempt(lambda: shared.template(tref))  # noqa: B023
                if tmpl_o[0] != "ok":
                    continue
                tmpl = tmpl_o[1]
                self._pairs += 1
                ctls = [Ctl(suspend=True), Ctl(suspend=True)]
                coros = [tmpl.render_async(**build_data(raws[j], ctls[j])) for j in (0, 1)]
                tasks = run_schedule(coros, sched)
                suspensions = sum(t.steps for t in tasks)
                if suspensions >= 2:
                    res.labels.append("interleaved")
                for j in (0, 1):
                    got_j = task_outcome(tasks[j])
                    note_render(tref, got_j)

                    def solo(j: int = j) -> str:
                        t = fresh().template(tref)  # noqa: B023
                        task = run_alone(t.render_async(**build_data(raws[j], Ctl(suspend=True))))  # noqa: B023
                        if task.error is not None:
                            raise task.error
                        return task.result

                    want_j = attempt(solo)
                    res.evaluations += 1
                    compare(got_j, want_j, tsrc, "concurrent", "concurrent" if suspensions >= 2 else "history-dependence",
                            f"coroutine {j} of two interleaved render_async (schedule {sched}, "
                            f"{suspensions} suspensions)")
                continue

            raise ValueError(f"unknown operation {op!r}")

        # ---- after the history: brand-new objects at the start clock must behave as they did before it
        t_end = clock.t
        after = probe_all()
        clock.set(t_end)
        res.evaluations += 2 * len(before)
        for i, (b, a) in enumerate(zip(before, after)):
            if b != a and "skip" not in (b[0], a[0]):
                step = len(hist) - 1
                what = (f"template {probe_trefs[i]}" if i < len(probe_trefs)
                        else f"fixed probe {HAND[PROCESS_PROBES[i - len(probe_trefs)]]!r}")
                fail("process-state", "process-wide-state",
                     f"brand-new environment, loader and template ({what}) rendered {show(b)} before this "
                     f"history and {show(a)} after it, at the same clock")
        res.nontrivial = nontrivial and len(hist) >= 3

    def sample(self, case: Any) -> Any:
        return {"h": " ".join(op_str(o) for o in case["h"])[:300], "source0": case["sources"][0][:200],
                "loaders": case["loaders"]}


def op_str(op: list[Any]) -> str:
    code = op[0]

    def t(tref: list[Any]) -> str:
        return f"{tref[0]}.{tref[1]}{tref[2]}"

    if code in ("r", "ra"):
        return f"{code}({t(op[1])},d{op[2]})"
    if code in ("an", "new"):
        return f"{code}({t(op[1])})"
    if code == "clk":
        return f"clk(+{op[1]})"
    if code == "rf":
        return f"rf({t(op[1])},d{op[2]},{op[3]})"
    if code == "reg":
        return f"reg({op[1]})"
    if code == "cc":
        return f"cc({t(op[1])},d{op[2]},d{op[3]},{''.join(str(x) for x in op[4])})"
    if code == "mr":
        return f"mr(s{op[1]},d{op[2]})"
    if code == "ed":
        return f"ed({op[1]}:{op[2]}#{op[3]})"
    return str(op)


PROP = C09()
