"""C12 - str(template) and pickle round trips preserve behaviour."""

from __future__ import annotations

import pickle
import sys
from typing import Any

from hypothesis import strategies as st

from lv.core.runner import Prop
from lv.core.runner import Result
from lv.core.runner import exc_bucket
from lv.gen.grammar import Cfg
from lv.gen.grammar import data_strategy
from lv.gen.grammar import program_strategy
from lv.gen.printer import Layout
from lv.gen.printer import p_stmt
from lv.gen.printer import to_source
from lv.harness.envs import corpus
from lv.harness.envs import run_coro

from liquid2 import CachingChoiceLoader, CachingDictLoader, ChoiceLoader, DictLoader
from liquid2.exceptions import LiquidError
from liquid2.shopify import Environment as ShopifyEnvironment

CFG = Cfg(wc_rate=0.2, shopify=True, tablerow=True, confusion=0.08, budget=12, max_depth=3, indirect_root=True,
          huge_floats=True, spaced_names=True)

SPECIAL_STRINGS = st.one_of(
    st.sampled_from(["a'b", 'a"b', "a\\b", "${x}", "a${", "\x08", "\x0c\n\t\r", "😀", "日本", "\x7f", "\u2028",
                     "it's \"q\"", "\\n", "%}", "}}", "{{", "#}", "a b", "", " "]),
    st.text(alphabet="ab'\"\\${}%\n\t\x08😀é ", max_size=6),
)
CFG_STR = Cfg(wc_rate=0.1, shopify=True, tablerow=False, confusion=0.05, budget=6, max_depth=2, strings=SPECIAL_STRINGS)


def outcome(tmpl: Any, data: dict[str, Any], *, use_async: bool = False) -> tuple[str, Any]:
    try:
        if use_async:
            return ("ok", run_coro(tmpl.render_async(**data)))
        return ("ok", tmpl.render(**data))
    except LiquidError as err:
        return ("err", type(err).__name__)


def all_stmts(stmts: list[dict[str, Any]]) -> list[dict[str, Any]]:
    out: list[dict[str, Any]] = []
    for s in stmts:
        out.append(s)
        for key in ("body", "else"):
            if isinstance(s.get(key), list):
                out.extend(all_stmts(s[key]))
        for _c, b in s.get("elsifs") or []:
            out.extend(all_stmts(b))
        for _v, b in s.get("whens") or []:
            out.extend(all_stmts(b))
    return out


@st.composite
def case_strategy(draw: Any) -> dict[str, Any]:
    cfg = CFG if draw(st.integers(0, 3)) else CFG_STR
    prog = draw(program_strategy(cfg))
    return {"kind": "prog", "prog": prog, "layout": draw(st.integers(0, 30)),
            "data": [draw(data_strategy(allow_empty=True)), draw(data_strategy(allow_empty=True))]}


BOOL_OPS = ("and", "or", "==", "!=", "contains", "<")
_TF = (True, False)
BOOL_DATA = [dict(zip("abcd", vs)) for vs in __import__("itertools").product(_TF, repeat=4)] + [
    {"a": [True, False], "b": True, "c": False, "d": [False]}, {"a": [True, False], "b": False, "c": True, "d": None},
    {"a": "x", "b": "x", "c": [True], "d": [False, None]}, {"a": None, "b": [None], "c": False, "d": "x"},
    {"a": [False], "b": [True], "c": [True, False], "d": True}, {"a": 1, "b": 2, "c": 1, "d": [1, 2]},
    {"a": True, "b": [True, False], "c": [False], "d": False}, {"a": False, "b": [False], "c": [True, False], "d": True},
]


def _shapes(k: int) -> list[Any]:
    """All binary tree shapes with k internal nodes (None = leaf)."""
    if k == 0:
        return [None]
    out = []
    for i in range(k):
        for left in _shapes(i):
            for right in _shapes(k - 1 - i):
                out.append((left, right))
    return out


def bool_trees(tier: str) -> Any:
    import itertools

    max_nots = 1 if tier == "quick" else 2
    for k in (1, 2, 3):
        for shape in _shapes(k):
            n_nodes = 2 * k + 1
            for ops in itertools.product(BOOL_OPS, repeat=k):
                for r in range(max_nots + 1):
                    for nots in itertools.combinations(range(n_nodes), r):
                        state = {"leaf": 0, "op": 0, "node": 0}

                        def emit(sh: Any) -> str:
                            me = state["node"]
                            state["node"] += 1
                            if sh is None:
                                text = "abcd"[state["leaf"]]
                                state["leaf"] += 1
                            else:
                                op = ops[state["op"]]
                                state["op"] += 1
                                text = "(" + emit(sh[0]) + " " + op + " " + emit(sh[1]) + ")"
                            return "(not " + text + ")" if me in nots else text

                        expr = emit(shape)
                        src = ("{% if " + expr + " %}y{% else %}n{% endif %}") if (k + r) % 2 else (
                            "{{ 'y' if " + expr + " else 'n' }}")
                        yield {"kind": "src", "src": src, "templates": {}, "data": BOOL_DATA}


class C12(Prop):
    id = "C12"
    title = "Serialising a template and reparsing it preserves its behaviour"
    technique = "property-based testing: parse/str round-trip and pickle round-trip, differential outcome oracle"
    rule = (
        "grammar programs over the built-in + Shopify tag set (every expression form, all whitespace-control "
        "markers, liquid tags, three comment kinds, strings with quotes/backslashes/${/control/astral chars) printed "
        "with a random layout, x 2 data sets, plus the 995 CTS templates; a case is non-trivial when the template "
        "parses, contains at least one expression printed through Expression.__str__ (any output/tag expression) "
        "and renders non-empty output for at least one data set; distinct by SHA-1 of the case"
    )
    assumptions = [
        "behaviour = output text or LiquidError class, for the supplied data sets, sync (and async for pickle)",
        "templates that do not parse are outside the property",
    ]
    batch = 300

    def n_random(self, tier: str) -> int:
        return 16000 if tier == "quick" else 300000

    def strategy(self, tier: str, disabled: frozenset[str]):
        return case_strategy()

    def enumerate(self, tier: str, disabled: frozenset[str]):
        for t in corpus():
            if t.get("invalid"):
                continue
            yield {"kind": "src", "src": t["template"], "templates": t.get("templates") or {},
                   "data": [t.get("data") or {}]}

        # empty and blank branches under every combination of the adjacent markers: a tag that str() drops or
        # moves takes its whitespace control with it
        marks = ("", "-", "~", "+")
        datas = [{"a": True, "b": False, "xs": [1]}, {"a": False, "b": True, "xs": []}]
        for e in ("", " \n", "y "):
            for l1 in marks:
                for r1 in marks:
                    for l2 in marks:
                        mid = "{%" + l1 + " else " + r1 + "%}" + e + "{%" + l2 + " end"
                        for src in (
                            "{% if a %}x  " + mid + "if %}|",
                            "{% unless a %} x\n" + mid + "unless %}|",
                            "{% for i in xs %}x  " + mid + "for %}|",
                            "{% case a %}{% when true %}x  " + mid + "case %}|",
                            "{% if a %}x  {%" + l1 + " elsif b " + r1 + "%}" + e + "{%" + l2 + " else %} z{% endif %}|",
                            "{% case a %}{%" + l1 + " when true " + r1 + "%}" + e + "{%" + l2 + " when false %} z{% endcase %}|",
                            "[ {%" + l1 + " if a " + r1 + "%}" + e + "{%" + l2 + " endif %} ]",
                        ):
                            yield {"kind": "src", "src": src, "templates": {}, "data": datas}

        # state that is keyed by how a tag is written: the same items spelled differently in two cycle tags
        # (str() writes one canonical spelling), template names with quotes in them
        spell = [("'a', 'b'", '"a", "b"'), ("1.0, 2", "1.00, 2"), ("nil, 'x'", "null, 'x'"), ("x.y, 1", "x['y'], 1"),
                 ("100, 2", "1e2, 2"), ("'it\\'s', 2", '"it\'s", 2'), ("g: 'a', 'b'", "'g': 'a', 'b'"),
                 ("'a', 'b'", "'a',  'b'")]
        for one, two in spell:
            for wrap in ("{% cycle ONE %}<{% cycle TWO %}>{% cycle ONE %}|{% cycle TWO %}",
                         "{% for i in (1..3) %}{% cycle ONE %}{% cycle TWO %}{% endfor %}",
                         "{% liquid cycle ONE\ncycle TWO\n%}{% cycle ONE %}{% cycle TWO %}"):
                yield {"kind": "src", "src": wrap.replace("ONE", one).replace("TWO", two), "templates": {},
                       "data": [{"x": {"y": "Y"}}]}
        quoted = {"it's": "[apostrophe]", 'say "hi"': "[quotes]", "a\\b": "[backslash]", "$x": "[dollar]", "a b": "[space]"}
        for name in quoted:
            for q in ("'", '"'):
                lit = q + name.replace("\\", "\\\\").replace(q, "\\" + q) + q
                for tag in ("include", "render"):
                    yield {"kind": "src", "src": "[{% " + tag + " " + lit + " %}]{% " + tag + " " + lit + ", a: 1 %}",
                           "templates": quoted, "data": [{}]}

        # pickles travel: a template pickled here is unpickled and rendered by another interpreter process with
        # another hash seed, where its partials are parsed afresh (state keyed by hash() would not survive)
        shared = {"p": "{% cycle 'a', 'b', 'c' %}{% increment n %}", "q": "{% cycle g: 1, 2 %}{% for x in xs offset: continue %}{{ x }}{% endfor %}"}
        items = [
            ["{% cycle 'a', 'b', 'c' %}{% include 'p' %}{% cycle 'a', 'b', 'c' %}|{% render 'p' %}", shared, {}],
            ["{% cycle g: 1, 2 %}{% include 'q' %}{% cycle g: 1, 2 %}{% include 'q' %}", shared, {"xs": [1, 2, 3]}],
            ["{% for x in xs limit: 1 %}{{ x }}{% endfor %}{% include 'q' %}{% for x in xs offset: continue %}{{ x }}{% endfor %}", shared, {"xs": [1, 2, 3]}],
            ["{% increment n %}{% include 'p' %}{% increment n %}{{ n }}", shared, {}],
            ["{% macro m a, b: 'B' %}[{{ a }}{{ b }}]{% endmacro %}{% call m 1 %}{% include 'p' %}{% call m 1, b: 2 %}", shared, {}],
            ["{% assign k = 'a' %}{{ h[k] }}{{ h['b'] }}{{ h.c }}{% case k %}{% when 'b', 'a' %}w{% endcase %}", {}, {"h": {"a": 1, "b": 2, "c": 3}}],
        ]
        for t in corpus()[::9]:
            if not t.get("invalid") and not t.get("templates"):
                items.append([t["template"], {}, t.get("data") or {}])
        for i in range(0, len(items), 40):
            yield {"kind": "xproc", "items": items[i:i + 40]}

        # every boolean expression tree with up to three binary operators over distinct variables, with `not`
        # at up to one (quick) or two (thorough) of its nodes, written fully parenthesised: str() decides which
        # parentheses to keep, and dropping one that mattered regroups the reparsed expression
        yield from bool_trees(tier)

        # integer literals at the int-to-str conversion limit: str() writes every digit, and what the parser
        # accepted in exponent spelling must still be accepted digit by digit, sign included
        lim = getattr(sys, "get_int_max_str_digits", lambda: 4300)() or 4300
        for sign in ("", "-"):
            lits = [sign + "1e" + str(n) for n in range(lim - 3, lim + 2)]
            lits += [sign + "9" * k for k in (lim - 1, lim, lim + 1)]
            lits += [sign + "12e" + str(lim - 2), sign + "12e" + str(lim - 3), sign + "1" + "0" * (lim - 1)]
            for lit in lits:
                for src in ("{{ LIT }}", "{% assign x = LIT %}{{ x | size }}", "{% if LIT != 0 %}a{% endif %}",
                            "{{ 1 | plus: LIT | size }}", "{% for i in (LIT..LIT) %}{{ forloop.length }}{% endfor %}",
                            "{{ a[LIT] }}|", "{% liquid echo LIT | size %}"):
                    yield {"kind": "src", "src": src.replace("LIT", lit), "templates": {}, "data": [{"a": [1]}]}

    def budget_s(self, tier: str) -> float:
        return 240 if tier == "quick" else 3000

    def _env(self, templates: dict[str, str], src: str = "") -> Any:
        # the template reaches its environment's loader when pickled: rotate through the loader kinds
        k = len(src) % 5
        if k == 0:
            return ShopifyEnvironment(loader=CachingDictLoader(templates))
        if k == 1:
            return ShopifyEnvironment(loader=CachingChoiceLoader([DictLoader({}), DictLoader(templates)]))
        if k == 2:
            return ShopifyEnvironment(loader=ChoiceLoader([DictLoader(templates)]))
        return ShopifyEnvironment(loader=DictLoader(templates))

    def _roundtrip(self, env: Any, src: str, datas: list[dict[str, Any]]) -> tuple[str, str] | None:
        """None if the round trip holds, else (kind, detail)."""
        try:
            t0 = env.from_string(src)
        except LiquidError:
            return None
        # "this stays true under repeated parse-then-str round trips": three rounds, each
        # serialisation must parse and behave like the original (textual fixed point is NOT
        # demanded - the statement only speaks about behaviour).
        cur = t0
        for rnd in (1, 2, 3):
            text = str(cur)
            try:
                nxt = env.from_string(text)
            except LiquidError as err:
                return (f"reparse-error", f"round {rnd}: {type(err).__name__}: "
                        f"{err.args[0] if err.args else ''}; serialised={text!r}")
            for d in datas:
                a, b = outcome(t0, d), outcome(nxt, d)
                if a != b:
                    return ("outcome-diff", f"round {rnd}: orig={a!r} reparsed={b!r}; serialised={text!r}")
            cur = nxt
        return None

    def _check_xproc(self, case: Any) -> Result:
        import base64
        import json
        import os
        import subprocess
        import tempfile

        res = Result()
        res.labels.append("cross-process-pickle")
        payload = []
        want = []
        for src, templates, data in case["items"]:
            env = ShopifyEnvironment(loader=DictLoader(dict(templates)))
            try:
                t0 = env.from_string(src)
                blob = pickle.dumps(t0)
            except Exception:  # noqa: BLE001 - parse errors and in-process pickling are the other families' business
                continue
            want.append((src, outcome(t0, data)))
            payload.append({"blob": base64.b64encode(blob).decode("ascii"), "data": data})
        if not payload:
            return res
        repo = os.environ.get("LV_REPO", "/repo")
        script = (
            "import sys, json, base64, pickle\n"
            "from liquid2.exceptions import LiquidError\n"
            "out = []\n"
            "for it in json.load(open(sys.argv[1])):\n"
            "    try:\n"
            "        t = pickle.loads(base64.b64decode(it['blob']))\n"
            "        out.append(['ok', t.render(**it['data'])])\n"
            "    except LiquidError as err:\n"
            "        out.append(['err', type(err).__name__])\n"
            "    except Exception as err:\n"
            "        out.append(['crash', type(err).__name__ + ': ' + str(err)[:200]])\n"
            "json.dump(out, sys.stdout)\n"
        )
        fd, path = tempfile.mkstemp(prefix="lv-c12-", suffix=".json")
        try:
            with os.fdopen(fd, "w") as fh:
                json.dump(payload, fh)
            env_vars = dict(os.environ)
            env_vars.update({"PYTHONHASHSEED": "4242", "PYTHONPATH": repo, "PYTHONDONTWRITEBYTECODE": "1"})
            proc = subprocess.run([sys.executable, "-c", script, path], capture_output=True, text=True, env=env_vars,
                                  timeout=300, check=False)
        finally:
            os.unlink(path)
        if proc.returncode != 0:
            raise RuntimeError("cross-process helper failed: " + proc.stderr[-500:])
        got = json.loads(proc.stdout)
        res.evaluations = 2 * len(want)
        res.nontrivial = True
        for (src, a), b in zip(want, got):
            if list(a) != list(b):
                res.fail("pickle", "pickle-outcome-other-process",
                         f"src={src!r} orig={a!r} unpickled in another interpreter (other hash seed)={tuple(b)!r}")
                break
        return res

    def check(self, case: Any, disabled: frozenset[str] = frozenset()) -> Result:
        if case["kind"] == "xproc":
            return self._check_xproc(case)
        res = Result()
        datas = case["data"]
        if case["kind"] == "prog":
            prog = case["prog"]
            lay = case["layout"]
            src = to_source(prog["main"], lay)
            templates = {k: to_source(v, lay) for k, v in prog["templates"].items()}
        else:
            src = case["src"]
            templates = dict(case.get("templates") or {})
            prog = None
        env = self._env(templates, src)
        try:
            t0 = env.from_string(src)
        except LiquidError:
            res.labels.append("unparsable")
            return res
        except RecursionError:
            return res
        except Exception as err:  # noqa: BLE001 (C02's business)
            res.labels.append("crash:" + exc_bucket(err))
            return res
        res.labels.append("parsed")
        try:
            outs = [outcome(t0, d) for d in datas]
            res.nontrivial = any(o[0] == "ok" and o[1] for o in outs) and ("{{" in src or "{%" in src)

            bad = self._roundtrip(env, src, datas)
            res.evaluations = 3 * len(datas) + 3
            if bad is not None:
                kind, detail = bad
                where = "whole"
                wsrc = src
                if prog is not None:
                    # localise: smallest single statement that fails the round trip on its own
                    best: tuple[int, str, str] | None = None
                    for s in all_stmts(prog["main"]):
                        try:
                            ssrc = p_stmt(s, Layout(lay))
                        except Exception:  # noqa: BLE001
                            continue
                        r = self._roundtrip(env, ssrc, datas)
                        if r is not None and (best is None or len(ssrc) < best[0]):
                            best = (len(ssrc), s["t"], ssrc)
                            kind, detail = r
                    if best is not None:
                        where, wsrc = best[1], best[2]
                res.fail("str-roundtrip", f"{kind}:{where}", f"src={wsrc!r} :: {detail}")

            # pickle
            t3 = pickle.loads(pickle.dumps(t0))
            if str(t3) != str(t0):
                res.fail("pickle", "pickle-str", f"src={src!r}")
            for d, o in zip(datas, outs):
                if outcome(t3, d) != o:
                    res.fail("pickle", "pickle-outcome", f"src={src!r} orig={o!r} unpickled={outcome(t3, d)!r}")
                    break
                oa = outcome(t3, d, use_async=True)
                if oa != o:
                    res.fail("pickle", "pickle-outcome-async", f"src={src!r} orig={o!r} unpickled-async={oa!r}")
                    break
        except RecursionError:
            return res
        except LiquidError:
            raise
        except Exception as err:  # noqa: BLE001 - a crash in render is C02's; in __str__/pickle it is ours
            import traceback

            tb = traceback.format_exc()
            if "pickle" in tb:
                res.fail("pickle", f"pickle-crash:{type(err).__name__}", f"{type(err).__name__}: {err}; src={src!r}")
            elif "__str__" in tb:
                res.fail("str-roundtrip", "str-crash:" + exc_bucket(err), f"{type(err).__name__}: {err}; src={src!r}")
            else:
                res.labels.append("crash:" + exc_bucket(err))
        return res

    def sample(self, case: Any) -> Any:
        if case["kind"] == "xproc":
            return {"kind": "xproc", "n": len(case["items"]), "first": case["items"][0][0][:200]}
        if case["kind"] == "prog":
            return {"src": to_source(case["prog"]["main"], case["layout"])[:300]}
        return {"src": case["src"][:300]}


PROP = C12()
