"""C14 - caching loaders are transparent.

A case is a loader configuration plus a history of operations.  The history is run
against a real caching loader (CachingDictLoader, CachingFileSystemLoader or
CachingChoiceLoader, each through a thin subclass that gives namespaces a meaning and
lets the harness inject a fault into the next source load) and, in lock step, against
a reference model: the *uncached view* of the current sources plus an explicit LRU map
of snapshots.  Every load-and-render step must produce what the model predicts.

Operations (JSON lists)
    ["L", mode, name, ns, g]                load-and-render; mode "s" sync | "a" async
    ["S", mode, [name, ns, g], [name, ns, g]]
                                            get, get, render first, render second;
                                            mode "s" | "a" (one coroutine) | "t" (two tasks)
    ["M", name, ns]                         modify (or re-create) the source
    ["D", name, ns]                         delete the source
    ["F", kind]                             the next get fails when it consults the source;
                                            kind "io" (OSError) | "nf" (TemplateNotFoundError)

Generator flags (switched off by active known findings through `disabled`; everything is
generated when none is disabled, exclusions are counted in `Result.excluded`)
    "globals-vary"     when disabled, every key is always fetched with the same globals
    "async-namespace"  when disabled, async gets are never combined with a namespace
    "delete-stat"      when disabled, a history stops before a get (auto_reload on) of a key
                       whose resident snapshot came from a file that has been deleted

Template text is ``<name>@<version>[<namespace>]<layer>|g={{ g }}|e={{ e }}`` so that the
template served, its version, the namespace it was loaded for, the layer it came from
and the globals it was rendered with are all visible in the output.
"""

from __future__ import annotations

import asyncio
import itertools
import os
import re
import shutil
import tempfile
import warnings
from collections import OrderedDict
from typing import Any

from hypothesis import strategies as st

from lv.core.runner import Prop
from lv.core.runner import Result
from lv.core.runner import exc_bucket

from liquid2 import CachingChoiceLoader
from liquid2 import CachingDictLoader
from liquid2 import CachingFileSystemLoader
from liquid2 import DictLoader
from liquid2 import Environment
from liquid2 import FileSystemLoader
from liquid2 import RenderContext
from liquid2.exceptions import LiquidError
from liquid2.exceptions import TemplateNotFoundError

NAMES = ["a", "b", "c"]
NS_SETS = [[None], [None, "n1"], [None, "n1", "n2"], ["n1", "n2"]]
# two callers' globals that Python's == cannot tell apart ({"g": 1} == {"g": True}) but that render differently
# ... and others that are equal value by value yet render differently (signed zero, key order)
GLOBALS = {"g1": {"g": 1}, "g2": {"g": True}, "g3": {"g": 0.0}, "g4": {"g": -0.0},
           "g5": {"g": {"a": 1, "b": 2}}, "g6": {"g": {"b": 2, "a": 1}}}
GTEXT = {None: "", "g1": "1", "g2": "true", "g3": "0.0", "g4": "-0.0",
         "g5": "{'a': 1, 'b': 2}", "g6": "{'b': 2, 'a': 1}"}
NS_KEY = "ns"
MTIME_BASE = 1_500_000_000

LAYERS = {"dict": ["D"], "fs": ["F"], "choice": ["F", "D"]}
# CachingChoiceLoader([FileSystemLoader(overlay), DictLoader(base)]): where a name lives initially
CHOICE_HOME = {"a": ["F"], "b": ["D"], "c": ["F", "D"]}

# a memory backed parent directory when there is one (rmdir on the disk costs milliseconds)
_TMP_PARENT = "/dev/shm" if os.path.isdir("/dev/shm") and os.access("/dev/shm", os.W_OK | os.X_OK) else None

BODY_RE = re.compile(r"^(\w+)@(\d+)\[([^\]]+)\]([DF])$")


def key_of(name: str, ns: str | None) -> str:
    return f"{ns}/{name}" if ns else name


def body_of(name: str, ns: str | None, layer: str, ver: int) -> str:
    return f"{name}@{ver}[{ns or '-'}]{layer}"


def source_of(body: str) -> str:
    return body + "|g={{ g }}|e={{ e }}"


# --------------------------------------------------------------------------- loaders under test


class Injected(OSError):
    """The fault injected by an ["F", "io"] operation."""


class _Instrumented:
    """Namespace-aware source lookup (the namespace is read from the loader keyword
    argument or from the render context globals named by ``namespace_key``, as the
    documentation of ``namespace_key`` describes: templates live under "<ns>/<name>")
    plus one-shot fault injection."""

    fail_next: str | None = None
    source_loads = 0

    def _mapped(self, template_name: str, context: Any, kwargs: dict[str, object]) -> str:
        ns = kwargs.get(NS_KEY)
        if ns is None and context is not None:
            ns = context.globals.get(NS_KEY)
        return f"{ns}/{template_name}" if ns else template_name

    def _fault(self, template_name: str) -> None:
        self.source_loads += 1
        kind = self.fail_next
        if kind is not None:
            self.fail_next = None
            if kind == "nf":
                raise TemplateNotFoundError(template_name)
            raise Injected("injected fault")

    def get_source(self, env: Any, template_name: str, *, context: Any = None, **kwargs: object) -> Any:
        self._fault(template_name)
        return super().get_source(  # type: ignore[misc]
            env, self._mapped(template_name, context, kwargs), context=context, **kwargs
        )


class _InstrumentedAsync(_Instrumented):
    """For bases with their own get_source_async (the default one delegates to
    get_source and must not be mapped twice)."""

    async def get_source_async(self, env: Any, template_name: str, *, context: Any = None, **kwargs: object) -> Any:
        self._fault(template_name)
        return await super().get_source_async(  # type: ignore[misc]
            env, self._mapped(template_name, context, kwargs), context=context, **kwargs
        )


class NsCachingDictLoader(_Instrumented, CachingDictLoader):
    pass


class NsCachingFileSystemLoader(_InstrumentedAsync, CachingFileSystemLoader):
    pass


class NsCachingChoiceLoader(_InstrumentedAsync, CachingChoiceLoader):
    pass


# --------------------------------------------------------------------------- event loop (per process)

_LOOP: dict[str, Any] = {"pid": None, "loop": None}


def run_async(coro: Any) -> Any:
    pid = os.getpid()
    loop = _LOOP["loop"]
    if _LOOP["pid"] != pid or loop is None or loop.is_closed():
        loop = asyncio.new_event_loop()
        _LOOP.update(pid=pid, loop=loop)
    try:
        return loop.run_until_complete(coro)
    except BaseException:
        _LOOP.update(pid=None, loop=None)
        try:
            loop.close()
        except BaseException:  # noqa: BLE001
            pass
        raise


# --------------------------------------------------------------------------- the real side


class World:
    """Sources as the loaders see them, and the loader/environment under test."""

    def __init__(self, cfg: dict[str, Any], root: str | None):
        self.kind = cfg["loader"]
        self.cap = cfg["cap"]
        self.root = root
        self.templates: dict[str, str] = {}
        kw = {"auto_reload": cfg["reload"], "namespace_key": NS_KEY, "capacity": self.cap}
        if self.kind == "dict":
            self.loader: Any = NsCachingDictLoader(self.templates, **kw)
        elif self.kind == "fs":
            self.loader = NsCachingFileSystemLoader(root, **kw)
        else:
            self.loader = NsCachingChoiceLoader([FileSystemLoader(root), DictLoader(self.templates)], **kw)
        self.env = Environment(loader=self.loader, globals={"e": "E"} if cfg.get("eglob") else None)
        self.via = cfg.get("via", "kw")
        self.direct = bool(cfg.get("direct"))
        self.mtime_back = cfg.get("mtime") == "back"
        self._dummy = self.env.from_string("")

    def write(self, layer: str, key: str, text: str, tick: int) -> None:
        if layer == "D":
            self.templates[key] = text
            return
        path = os.path.join(self.root, key)
        os.makedirs(os.path.dirname(path), exist_ok=True)
        with open(path, "w", encoding="utf-8") as fd:
            fd.write(text)
        # modification times are distinct per write; they move forwards, or - as after a restore from backup,
        # `cp -p`, a rollback - backwards
        t = (MTIME_BASE + (-tick if self.mtime_back else tick)) * 1_000_000_000
        os.utime(path, ns=(t, t))

    def delete(self, layer: str, key: str) -> None:
        if layer == "D":
            del self.templates[key]
        else:
            os.unlink(os.path.join(self.root, key))

    def get_kwargs(self, ns: str | None, g: str | None) -> dict[str, Any]:
        kw: dict[str, Any] = {}
        if g is not None:
            kw["globals"] = dict(GLOBALS[g])
        if ns is not None:
            if self.via == "ctx":
                kw["context"] = RenderContext(self._dummy, global_data={NS_KEY: ns})
            else:
                kw[NS_KEY] = ns
        return kw

    def ident(self) -> frozenset[tuple[str, int]]:
        return frozenset((k, id(v)) for k, v in self.loader.cache.items())

    # each act: {"ok": bool, "text": str} | {"ok": False, "kind": str, "exc": BaseException, "changed": bool}

    def _err(self, err: Exception, before: frozenset[tuple[str, int]]) -> dict[str, Any]:
        if isinstance(err, Injected):
            kind = "io"
        elif isinstance(err, TemplateNotFoundError):
            kind = "nf"
        else:
            kind = "other:" + type(err).__name__
        return {"ok": False, "kind": kind, "exc": err, "changed": before != self.ident()}

    def run_sync(self, gets: list[list[Any]]) -> tuple[list[dict[str, Any]], int]:
        acts: list[dict[str, Any]] = []
        over = 0
        for j, (name, ns, g) in enumerate(gets):
            before = self.ident()
            try:
                if self.direct:
                    tmpl = self.loader.load(self.env, name, **self.get_kwargs(ns, g))
                else:
                    tmpl = self.env.get_template(name, **self.get_kwargs(ns, g))
                acts.append({"ok": True, "tmpl": tmpl})
            except Exception as err:  # noqa: BLE001
                acts.append(self._err(err, before))
            if j == 0:
                self.loader.fail_next = None
            over = max(over, len(self.loader.cache))
        for act in acts:
            if act["ok"]:
                try:
                    act["text"] = act.pop("tmpl").render()
                except Exception as err:  # noqa: BLE001
                    act.update(ok=False, kind="other:render:" + type(err).__name__, exc=err, changed=False)
        return acts, over

    async def _one_async(self, j: int, spec: list[Any], acts: list[Any], over: list[int], pause: bool) -> Any:
        name, ns, g = spec
        before = self.ident()
        tmpl = None
        try:
            if self.direct:
                tmpl = await self.loader.load_async(self.env, name, **self.get_kwargs(ns, g))
            else:
                tmpl = await self.env.get_template_async(name, **self.get_kwargs(ns, g))
            acts[j] = {"ok": True}
        except Exception as err:  # noqa: BLE001
            acts[j] = self._err(err, before)
        if j == 0:
            self.loader.fail_next = None
        over[0] = max(over[0], len(self.loader.cache))
        if pause:
            await asyncio.sleep(0)
        return tmpl

    async def run_async(self, gets: list[list[Any]], tasks: bool) -> tuple[list[dict[str, Any]], int]:
        acts: list[Any] = [None] * len(gets)
        over = [0]

        async def render(j: int, tmpl: Any) -> None:
            if tmpl is None:
                return
            try:
                acts[j]["text"] = await tmpl.render_async()
            except Exception as err:  # noqa: BLE001
                acts[j].update(ok=False, kind="other:render:" + type(err).__name__, exc=err, changed=False)

        if tasks:
            async def whole(j: int, spec: list[Any]) -> None:
                tmpl = await self._one_async(j, spec, acts, over, True)
                await render(j, tmpl)

            await asyncio.gather(*(whole(j, spec) for j, spec in enumerate(gets)))
        else:
            tmpls = [await self._one_async(j, spec, acts, over, False) for j, spec in enumerate(gets)]
            for j, tmpl in enumerate(tmpls):
                await render(j, tmpl)
        return acts, over[0]


# --------------------------------------------------------------------------- the reference model


class Model:
    """Uncached view of the current sources + explicit LRU map of snapshots.

    The LRU map is a *set of candidate maps*: the statement does not say whether a load
    that fails while refreshing a resident entry counts as a use of that entry, so both
    readings are kept until an observation separates them.
    """

    def __init__(self, cfg: dict[str, Any]):
        self.kind = cfg["loader"]
        self.cap = cfg["cap"]
        self.reload = cfg["reload"]
        self.layers = LAYERS[self.kind]
        self.cur: dict[tuple[str, str], int | None] = {}
        self.last: dict[tuple[str, str], int] = {}
        self.cands: list[OrderedDict[str, tuple[str, int, str]]] = [OrderedDict()]
        self.armed: str | None = None
        self.tick = 0

    def home(self, name: str) -> list[str]:
        return CHOICE_HOME[name] if self.kind == "choice" else self.layers

    def uncached(self, key: str) -> tuple[str, int] | None:
        for layer in self.layers:
            ver = self.cur.get((layer, key))
            if ver is not None:
                return layer, ver
        return None

    def get(
        self, cache: OrderedDict[str, tuple[str, int, str]], name: str, ns: str | None, fault: str | None
    ) -> list[tuple[tuple[str, str], OrderedDict[str, tuple[str, int, str]], str]]:
        """All (outcome, next cache, tag) the statement allows for one get."""
        key = key_of(name, ns)
        cur = self.uncached(key)
        snap = cache.get(key)
        outs: list[Any] = []
        need = True
        if snap is not None:
            layer, ver, body = snap
            has_info = layer == "F"  # only file system sources carry an `uptodate` callable
            fresh = self.cur.get((layer, key)) == ver
            if not self.reload or not has_info or fresh:
                # "... or, where auto-reload is off or no freshness information exists, what it produced when the
                # entry was last loaded": the last-loaded answer is admissible there, and so is the current one
                # (a loader may have partial information, e.g. a choice loader asking its earlier delegates)
                need = not fresh or cur != (layer, ver)
                touched = cache.copy()
                touched.move_to_end(key)
                outs.append((("ok", body), touched, "hit" if cur == (layer, ver) else "stale-hit"))
                if fault and self.reload:
                    # a loader that checks freshness may consult the source; then it fails as
                    # the uncached loader would fail at this moment
                    outs.append((("err", fault), cache, "fault-on-hit"))
                    outs.append((("err", fault), touched, "fault-on-hit"))
        if need:
            if fault or cur is None:
                outs.append((("err", fault or "nf"), cache, "fail-resident" if snap is not None else "fail-miss"))
                if snap is not None:
                    touched = cache.copy()
                    touched.move_to_end(key)
                    outs.append((("err", fault or "nf"), touched, "fail-resident"))
            else:
                nxt = cache.copy()
                tag = "reload" if snap is not None else "miss"
                if snap is None and len(nxt) >= self.cap:
                    nxt.popitem(last=False)
                    tag = "miss+evict"
                body = body_of(name, ns, cur[0], cur[1])
                nxt[key] = (cur[0], cur[1], body)
                nxt.move_to_end(key)
                outs.append((("ok", body), nxt, tag))
        return outs

    def chains(self, gets: list[list[Any]]) -> list[tuple[list[tuple[str, str]], Any, list[str]]]:
        """Allowed (outcomes, final cache, tags) for a sequence of gets; the armed fault
        applies to the first get only."""
        out: list[tuple[list[tuple[str, str]], Any, list[str]]] = []
        for cand in self.cands:
            partial: list[tuple[list[tuple[str, str]], Any, list[str]]] = [([], cand, [])]
            for j, (name, ns, _g) in enumerate(gets):
                nxt = []
                for outs, cache, tags in partial:
                    for o, c2, tag in self.get(cache, name, ns, self.armed if j == 0 else None):
                        nxt.append(([*outs, o], c2, [*tags, tag]))
                partial = nxt
            out.extend(partial)
        return out


# --------------------------------------------------------------------------- generators

ALPHABET: list[list[Any]] = [
    ["L", "s", "a", None, None],
    ["L", "s", "a", None, "g1"],
    ["L", "s", "a", None, "g2"],
    ["L", "s", "a", None, "g3"],
    ["L", "s", "a", None, "g4"],
    ["L", "s", "b", None, None],
    ["L", "s", "c", None, "g1"],
    ["L", "s", "a", "n1", None],
    ["L", "s", "a", "n1", "g1"],
    ["L", "s", "a", "n2", None],
    ["L", "a", "a", None, None],
    ["L", "a", "a", None, "g1"],
    ["L", "a", "a", "n1", None],
    ["L", "a", "a", "n2", "g2"],
    ["L", "a", "b", None, None],
    ["S", "s", ["a", None, "g1"], ["a", None, "g2"]],
    ["S", "t", ["a", None, "g1"], ["a", None, None]],
    ["M", "a", None],
    ["M", "a", "n1"],
    ["M", "b", None],
    ["D", "a", None],
    ["F", "io"],
]

ENUM_CONFIGS = [
    {"loader": ld, "cap": cap, "reload": rl, "via": "kw", "eglob": False}
    for ld in ("dict", "fs", "choice")
    for rl in (True, False)
    for cap in (1, 2)
]


def gets_of(op: list[Any]) -> list[list[Any]]:
    if op[0] == "L":
        return [[op[2], op[3], op[4]]]
    if op[0] == "S":
        return [list(op[2]), list(op[3])]
    return []


def is_async(op: list[Any]) -> bool:
    return op[0] in ("L", "S") and op[1] != "s"


def violates(case: dict[str, Any], disabled: frozenset[str]) -> list[str]:
    """Which disabled generator flags the case would need."""
    hit: list[str] = []
    if "globals-vary" in disabled:
        seen: dict[str, Any] = {}
        for op in case["h"]:
            for name, ns, g in gets_of(op):
                if seen.setdefault(key_of(name, ns), g) != g:
                    hit.append("globals-vary")
                    break
            if hit:
                break
    if "async-namespace" in disabled and any(
        is_async(op) and any(ns is not None for _n, ns, _g in gets_of(op)) for op in case["h"]
    ):
        hit.append("async-namespace")
    return hit  # "delete-stat" is decided dynamically in C14._run (it depends on residency)


def normalise(case: dict[str, Any], disabled: frozenset[str]) -> dict[str, Any]:
    """Rewrite a generated case so that it needs none of the disabled flags."""
    if not disabled:
        return case
    hist = [list(op) for op in case["h"]]
    if "async-namespace" in disabled:
        for op in hist:
            if is_async(op) and any(ns is not None for _n, ns, _g in gets_of(op)):
                op[1] = "s"
    if "globals-vary" in disabled:
        seen: dict[str, Any] = {}
        for op in hist:
            if op[0] == "L":
                op[4] = seen.setdefault(key_of(op[2], op[3]), op[4])
            elif op[0] == "S":
                for i in (2, 3):
                    spec = list(op[i])
                    spec[2] = seen.setdefault(key_of(spec[0], spec[1]), spec[2])
                    op[i] = spec
    return {**case, "h": hist}


def _decode(cfg: tuple[Any, ...], raw: list[tuple[int, ...]]) -> dict[str, Any]:
    loader, cap, reload_, via, eglob, nn, nsi, back = cfg
    names = NAMES[:nn]
    nss = NS_SETS[nsi]
    gs = [None, "g1", "g2", None, "g3", "g4", "g5", "g6"]
    hist: list[list[Any]] = []
    for k, n1, s1, g1, m, n2, s2, g2 in raw:
        name, ns = names[n1 % nn], nss[s1 % len(nss)]
        if k < 10:
            hist.append(["L", "s" if m < 2 else "a", name, ns, gs[g1 % len(gs)]])
        elif k < 12:
            hist.append(["S", ["s", "a", "t", "s"][m], [name, ns, gs[g1 % len(gs)]],
                         [names[n2 % nn], nss[s2 % len(nss)], gs[g2 % len(gs)]]])
        elif k < 16:
            hist.append(["M", name, ns])
        elif k < 18:
            hist.append(["D", name, ns])
        else:
            hist.append(["F", "io" if m < 3 else "nf"])
    return {"loader": loader, "cap": cap, "reload": reload_, "via": via, "eglob": eglob, "h": hist,
            "mtime": "back" if back else "fwd"}


@st.composite
def history_case(draw: Any, disabled: frozenset[str]) -> dict[str, Any]:
    cfg = (
        draw(st.sampled_from(["dict", "fs", "choice"])),
        draw(st.integers(1, 3)),
        draw(st.booleans()),
        draw(st.sampled_from(["kw", "kw", "ctx"])),
        draw(st.integers(0, 3)) == 0,
        draw(st.integers(1, 3)),
        draw(st.integers(0, 3)),
        draw(st.integers(0, 2)) == 0,
    )
    lo = draw(st.sampled_from([1, 3, 6, 12, 24]))
    op = st.tuples(st.integers(0, 19), st.integers(0, 2), st.integers(0, 2), st.integers(0, 7),
                   st.integers(0, 3), st.integers(0, 2), st.integers(0, 2), st.integers(0, 7))
    raw = draw(st.lists(op, min_size=lo, max_size=40))
    case = _decode(cfg, raw)
    if draw(st.integers(0, 3)) == 0:
        case["direct"] = True  # the documented loader.load(env, name, ...) rather than env.get_template()
    return normalise(case, disabled)


# --------------------------------------------------------------------------- the property


class C14(Prop):
    id = "C14"
    title = "Caching loaders are transparent"
    technique = (
        "model-based testing: exhaustive enumeration of short operation histories and Hypothesis-generated long "
        "histories, each step compared with an uncached view + explicit LRU reference model"
    )
    rule = (
        "a case is a configuration (CachingDictLoader | CachingFileSystemLoader | CachingChoiceLoader[fs overlay, "
        "dict base], capacity 1-3, auto_reload on/off, namespace passed as loader keyword or through the render "
        "context, environment globals on/off) plus a history over {load-and-render sync/async, get-get-render-render "
        "sync/async/two tasks, modify, delete, fail-next-load} on <= 3 names x {no namespace, n1, n2} x globals "
        "{none, g1..g6}; every history of length <= 3 (quick) / <= 4 (thorough) over a fixed 22-operation alphabet "
        "is enumerated for 12 configurations, random histories have up to 40 operations; non-trivial when the "
        "model sees a hit or reload on a key whose source changed since it was cached, or an eviction, or two "
        "gets of one key with different globals, or of one name with different namespaces; distinct by SHA-1 of "
        "the case"
    )
    assumptions = [
        "namespaces are given a meaning by a subclass whose get_source/get_source_async serve '<ns>/<name>', the "
        "namespace read from the loader keyword argument or context.globals[namespace_key] as documented",
        "file modification times are set explicitly (os.utime), are distinct for every write and either all increase or all decrease, so "
        "'fresh' in the model (same version) and in the loader (same mtime) coincide",
        "a hit predicted by the model must serve the snapshot (exact LRU retention is demanded, not merely 'some "
        "allowed text'); whether a load that fails while refreshing a resident entry counts as a use of the entry "
        "is left open (both LRU orders are tracked)",
        "with auto_reload on and a fresh file-system snapshot the loader may consult the source again (it does "
        "for a sync get of an async-loaded template), so an armed fault may or may not fire on such a hit",
        "the two-task schedule is only used with CachingDictLoader, where no get really suspends and the "
        "interleaving is deterministic; for the other loaders it runs as one coroutine",
        "CachingChoiceLoader is exercised over [FileSystemLoader, DictLoader] in that order, so a fresh "
        "file-system snapshot can never be shadowed by a later addition to an earlier loader",
    ]
    batch = 300

    def __init__(self) -> None:
        self._steps = 0
        self._gets = 0

    def n_random(self, tier: str) -> int:
        return 16000 if tier == "quick" else 240000

    def strategy(self, tier: str, disabled: frozenset[str]):
        return history_case(disabled)

    def enumerate(self, tier: str, disabled: frozenset[str]):
        maxlen = 3 if tier == "quick" else 4
        for n in range(1, maxlen + 1):
            for hist in itertools.product(ALPHABET, repeat=n):
                if hist[-1][0] not in ("L", "S"):
                    continue  # observes nothing that its (already enumerated) prefix does not
                for cfg in ENUM_CONFIGS:
                    yield {**cfg, "h": [list(op) for op in hist]}
                    if cfg["loader"] != "dict" and cfg["reload"] and any(op[0] == "M" for op in hist):
                        yield {**cfg, "h": [list(op) for op in hist], "mtime": "back"}

        # the documented loader.load(env, name, ...) entry, with environment globals in play
        for n in (1, 2, 3):
            for hist in itertools.product(ALPHABET[:9], repeat=n):
                if hist[-1][0] == "L":
                    for ld in ("dict", "fs"):
                        yield {"loader": ld, "cap": 2, "reload": True, "via": "kw", "eglob": True, "direct": True,
                               "h": [list(op) for op in hist]}

        # two search paths, one or two names, histories of writes / deletes / loads
        alphabet = [["w", 0, "x"], ["w", 1, "x"], ["d", 0, "x"], ["d", 1, "x"], ["L", "s", "x"], ["L", "a", "x"],
                    ["w", 1, "y"], ["L", "s", "y"]]
        for n in range(2, (5 if tier == "quick" else 6)):
            for hist in itertools.product(alphabet, repeat=n):
                if hist[-1][0] != "L" or not any(op[0] == "L" for op in hist[:-1]) or not any(op[0] == "w" for op in hist):
                    continue
                yield {"kind": "shadow", "loader": "fs2", "cap": 2, "reload": True, "h": [list(op) for op in hist],
                       "mtime": "back" if n % 2 else "fwd"}
                if n <= 4:
                    yield {"kind": "shadow", "loader": "choice", "cap": 2, "reload": True,
                           "h": [list(op) for op in hist], "mtime": "fwd"}

    def enumerated_is_exhaustive(self, tier: str) -> bool:
        return True

    def budget_s(self, tier: str) -> float:
        return 240 if tier == "quick" else 3000

    def setup_worker(self) -> None:
        warnings.filterwarnings("ignore", message="coroutine .* was never awaited", category=RuntimeWarning)

    def extra_evidence(self) -> dict[str, Any]:
        return {"operations_executed": self._steps, "gets_executed": self._gets}

    def sample(self, case: Any) -> Any:
        if case.get("kind") == "shadow":
            return case
        return {"loader": case["loader"], "cap": case["cap"], "reload": case["reload"],
                "h": " ".join(_op_str(op) for op in case["h"])[:400]}

    # ------------------------------------------------------------------ oracle

    def _check_shadow(self, case: dict[str, Any]) -> Result:
        """Two search paths: an entry cached from the later path must give way when the same name appears in the
        earlier one (and come back when it goes again).  Every load is compared with an uncached loader over the
        same directories at that moment."""
        res = Result()
        res.labels.append("shadow")
        root = tempfile.mkdtemp(prefix="c14s-", dir=_TMP_PARENT)
        try:
            paths = [os.path.join(root, "p1"), os.path.join(root, "p2")]
            for p in paths:
                os.makedirs(p)
            via_choice = case.get("loader") == "choice"
            if via_choice:
                # the same two directories as two delegates of a caching choice loader
                cached = Environment(loader=CachingChoiceLoader([FileSystemLoader(paths[0]), FileSystemLoader(paths[1])],
                                                                auto_reload=True, capacity=case["cap"]))
            else:
                cached = Environment(loader=CachingFileSystemLoader(paths, auto_reload=True, capacity=case["cap"]))
            tick = 0
            changed = False
            for i, op in enumerate(case["h"]):
                if op[0] == "w":
                    tick += 1
                    path = os.path.join(paths[op[1]], op[2])
                    with open(path, "w", encoding="utf-8") as fd:
                        fd.write(f"{op[2]}@{tick}[p{op[1] + 1}]")
                    t = (MTIME_BASE + (-tick if case.get("mtime") == "back" else tick)) * 1_000_000_000
                    os.utime(path, ns=(t, t))
                    changed = True
                elif op[0] == "d":
                    try:
                        os.unlink(os.path.join(paths[op[1]], op[2]))
                        changed = True
                    except FileNotFoundError:
                        pass
                else:
                    plain = Environment(loader=FileSystemLoader(paths))
                    outs = []
                    for env in (cached, plain):
                        try:
                            if op[1] == "a":
                                outs.append(("ok", run_async(self._load_async(env, op[2]))))
                            else:
                                outs.append(("ok", env.get_template(op[2]).render()))
                        except LiquidError as err:
                            outs.append(("err", type(err).__name__))
                    res.evaluations += 2
                    if changed and i:
                        res.nontrivial = True
                    if outs[0] != outs[1]:
                        res.fail("uncached-view",
                                 f"search-path-shadow:{'choice:' if via_choice else ''}{'async' if op[1] == 'a' else 'sync'}",
                                 f"step {i}: the caching loader gave {outs[0]!r}, an uncached loader over the same "
                                 f"search paths gives {outs[1]!r}; history={case['h']}")
                        return res
        finally:
            shutil.rmtree(root, ignore_errors=True)
        return res

    @staticmethod
    async def _load_async(env: Any, name: str) -> str:
        t = await env.get_template_async(name)
        return str(await t.render_async())

    def check(self, case: Any, disabled: frozenset[str] = frozenset()) -> Result:
        if case.get("kind") == "shadow":
            return self._check_shadow(case)
        res = Result()
        res.evaluations = 0
        if disabled:
            need = violates(case, disabled)
            if need:
                res.excluded.extend(need)
                return res
        root = None
        try:
            if case["loader"] != "dict":
                root = tempfile.mkdtemp(prefix="c14-", dir=_TMP_PARENT)
            self._run(case, root, res, disabled)
        finally:
            if root is not None:
                shutil.rmtree(root, ignore_errors=True)
        return res

    def _run(  # noqa: PLR0912, PLR0915
        self, case: dict[str, Any], root: str | None, res: Result, disabled: frozenset[str] = frozenset()
    ) -> None:
        kind = case["loader"]
        world = World(case, root)
        model = Model(case)
        res.labels.append(f"{kind}:cap{case['cap']}:{'reload' if case['reload'] else 'noreload'}")

        # materialise (lazily: only what the history can touch) version 0 of every source
        for op in case["h"]:
            specs = gets_of(op) if op[0] in ("L", "S") else ([[op[1], op[2], None]] if op[0] in ("M", "D") else [])
            for name, ns, _g in specs:
                key = key_of(name, ns)
                for layer in model.home(name):
                    if (layer, key) not in model.last:
                        model.tick += 1
                        model.cur[(layer, key)] = model.last[(layer, key)] = 0
                        world.write(layer, key, source_of(body_of(name, ns, layer, 0)), model.tick)

        esuffix = "E" if case.get("eglob") else ""
        seen_g: dict[str, set[Any]] = {}
        seen_ns: dict[str, set[Any]] = {}
        failed_keys: set[str] = set()
        reported: set[str] = set()
        nontrivial = False

        def fail(oracle: str, bucket: str, detail: str) -> None:
            if bucket not in reported:
                reported.add(bucket)
                res.fail(oracle, bucket, f"step {step}: {detail}; config={_cfg_str(case)}; "
                                         f"history={' '.join(_op_str(o) for o in case['h'][: step + 1])}")

        for step, op in enumerate(case["h"]):
            self._steps += 1
            code = op[0]
            if code == "M":
                name, ns = op[1], op[2]
                key = key_of(name, ns)
                cur = model.uncached(key)
                layer = cur[0] if cur is not None else model.home(name)[0]
                ver = model.last[(layer, key)] + 1
                model.tick += 1
                model.cur[(layer, key)] = model.last[(layer, key)] = ver
                world.write(layer, key, source_of(body_of(name, ns, layer, ver)), model.tick)
                continue
            if code == "D":
                key = key_of(op[1], op[2])
                cur = model.uncached(key)
                if cur is None:
                    res.labels.append("delete-noop")
                else:
                    model.cur[(cur[0], key)] = None
                    world.delete(cur[0], key)
                continue
            if code == "F":
                model.armed = op[1]
                world.loader.fail_next = op[1]
                continue

            # ---- L / S
            gets = gets_of(op)
            mode = op[1]
            if mode == "t" and kind != "dict":
                mode = "a"
            modename = "sync" if mode == "s" else "async"
            if "delete-stat" in disabled and model.reload and any(
                (snap := cand.get(key_of(name, ns))) is not None and snap[0] == "F"
                and model.cur.get(("F", key_of(name, ns))) is None
                for name, ns, _g in gets for cand in model.cands
            ):
                # freshness check of a resident snapshot whose file has been deleted
                res.excluded.append("delete-stat")
                break
            chains = model.chains(gets)
            model.armed = None
            res.evaluations += len(gets)
            self._gets += len(gets)
            if mode == "s":
                acts, over = world.run_sync(gets)
            else:
                acts, over = run_async(world.run_async(gets, mode == "t"))
            world.loader.fail_next = None

            for name, ns, g in gets:
                key = key_of(name, ns)
                seen_g.setdefault(key, set()).add(g)
                seen_ns.setdefault(name, set()).add(ns)
                if len(seen_g[key]) > 1 or len(seen_ns[name]) > 1:
                    nontrivial = True

            # invariant: capacity
            if over > case["cap"]:
                fail("capacity", f"capacity:{kind}", f"len(loader.cache)={over} > capacity={case['cap']}")
                break

            # failures leave the cache unchanged (same keys bound to the same objects)
            for (name, ns, _g), act in zip(gets, acts):
                if not act["ok"] and act["changed"]:
                    fail("failure-unchanged", f"failure-cached:{kind}",
                         f"get {name!r} ns={ns!r} raised {act['kind']} and the cached entries (keys or the objects "
                         f"bound to them) changed")

            def body_match(exp: tuple[str, str], act: dict[str, Any]) -> bool:
                if exp[0] == "err":
                    return not act["ok"] and act["kind"] == exp[1]
                return act["ok"] and act["text"].split("|", 1)[0] == exp[1]

            matched = [ch for ch in chains if all(body_match(o, a) for o, a in zip(ch[0], acts))]
            if not matched:
                primary = chains[0]
                for j, (exp, act) in enumerate(zip(primary[0], acts)):
                    if not any(body_match(ch[0][j], act) for ch in chains):
                        name, ns, _g = gets[j]
                        oracle, bucket, detail = self._classify(
                            kind, modename, name, ns, exp, act, primary[2][j], key_of(name, ns) in failed_keys
                        )
                        fail(oracle, bucket, detail)
                        break
                else:  # each get matches some chain, but no single chain matches all of them
                    fail("model", f"inconsistent-sequence:{modename}:{kind}",
                         f"outcomes {[_act_str(a) for a in acts]} match no single allowed sequence "
                         f"{[ch[0] for ch in chains]}")
                break  # model and loader state have diverged

            # "evicts least-recently-used entries first" (and nothing else, and only to make room): the keys now
            # resident must be those of an admissible model state.  Content alone cannot show an entry thrown
            # out early when its source is unchanged - it is simply loaded again.
            resident = set(world.loader.cache._cache.keys()) if hasattr(world.loader.cache, "_cache") else None
            if resident is not None and mode != "t":
                keyed = [ch for ch in matched if set(ch[1].keys()) == resident]
                if not keyed:
                    fail("lru", f"lru-keys:{kind}",
                         f"{modename}: resident keys {sorted(resident)} after the step; the LRU model admits "
                         f"{sorted({tuple(sorted(ch[1].keys())) for ch in matched})}")
                    break
                matched = keyed

            # model state: the candidates consistent with the observation
            uniq: dict[tuple[Any, ...], Any] = {}
            for ch in matched:
                uniq.setdefault(tuple(ch[1].items()), ch[1])
            model.cands = list(uniq.values())[:16]
            tags = matched[0][2]
            for tag in tags:
                res.labels.append(f"{tag}:{modename}")
                if tag in ("stale-hit", "reload", "miss+evict"):
                    nontrivial = True
            if code == "S":
                res.labels.append("split:" + op[1])
            for (name, ns, _g), act in zip(gets, acts):
                key = key_of(name, ns)
                if act["ok"]:
                    failed_keys.discard(key)
                else:
                    failed_keys.add(key)

            # globals are those of THIS call
            for (name, ns, g), act in zip(gets, acts):
                if not act["ok"]:
                    continue
                want = f"|g={GTEXT[g]}|e={esuffix}"
                got = act["text"][len(act["text"].split("|", 1)[0]):]
                if got != want:
                    how = "get-then-render split by another get of the key" if code == "S" else "load-and-render"
                    fail("globals", f"globals-leak:{kind}",
                         f"{modename} {how}: get {name!r} ns={ns!r} with globals {g or 'none'} rendered "
                         f"{act['text']!r}, expected suffix {want!r}")

        res.nontrivial = nontrivial

    # ------------------------------------------------------------------

    def _classify(  # noqa: PLR0911, PLR0912
        self, kind: str, mode: str, name: str, ns: str | None, exp: tuple[str, str], act: dict[str, Any],
        tag: str, failed_before: bool,
    ) -> tuple[str, str, str]:
        what = f"{mode} get {name!r} ns={ns!r}: expected {exp} ({tag}), got {_act_str(act)}"
        nsl = "ns" if ns else "nons"
        if not act["ok"]:
            akind = act["kind"]
            if akind.startswith("other:"):
                return ("error-type", f"error-type:{akind[6:]}:{mode}:{kind}",
                        f"{what}; {exc_bucket(act['exc'])}: {act['exc']}")
            if exp[0] == "err":
                return "error-kind", f"wrong-error:{exp[1]}->{akind}:{mode}:{kind}", what
            note = " (the previous get of this key failed)" if failed_before else ""
            if akind == "nf":
                return "spurious-error", f"spurious-notfound:{mode}:{nsl}:{kind}", f"{what}: {act['exc']}{note}"
            return "spurious-error", f"spurious-fault:{mode}:{nsl}:{kind}", what + note
        abody = act["text"].split("|", 1)[0]
        am = BODY_RE.match(abody)
        if am is None:
            return "text", f"garbled:{mode}:{kind}", what
        aname, aver, ans, alayer = am.group(1), int(am.group(2)), am.group(3), am.group(4)
        if aname != name:
            return "template", f"wrong-template:{mode}:{kind}", what
        if ans != (ns or "-"):
            return "namespace", f"namespace-leak:{mode}:{kind}", what
        if exp[0] == "err":
            if tag == "fail-miss":
                return ("lru", f"lru-order:stale-survivor:{kind}",
                        what + " (served from the cache although the model has evicted this key)")
            if tag == "fail-resident":
                return ("stale", f"stale:auto-reload:{mode}:{kind}",
                        what + " (resident snapshot is out of date and its source cannot be loaded)")
            return "missing-error", f"missing-error:{exp[1]}:{mode}:{kind}", what
        em = BODY_RE.match(exp[1])
        assert em is not None
        ever, elayer = int(em.group(2)), em.group(4)
        if tag == "reload":
            return "stale", f"stale:auto-reload:{mode}:{kind}", what + " (resident snapshot is out of date)"
        if tag in ("miss", "miss+evict"):
            return "lru", f"lru-order:stale-survivor:{kind}", what + " (the model has evicted this key)"
        if tag in ("hit", "stale-hit"):
            return ("lru", f"lru-order:lost-entry:{kind}",
                    what + " (the model still holds this key; evicted early or reloaded without cause)")
        return "text", f"wrong-version:{mode}:{kind}", f"{what} ({aver}{alayer} vs {ever}{elayer})"


def _op_str(op: list[Any]) -> str:
    def spec(s: list[Any]) -> str:
        return f"{key_of(s[0], s[1])}{'+' + s[2] if s[2] else ''}"

    if op[0] == "L":
        return f"L{op[1]}({spec(op[2:5])})"
    if op[0] == "S":
        return f"S{op[1]}({spec(op[2])},{spec(op[3])})"
    if op[0] == "F":
        return f"F({op[1]})"
    return f"{op[0]}({key_of(op[1], op[2])})"


def _cfg_str(case: dict[str, Any]) -> str:
    return (f"{case['loader']}/cap={case['cap']}/auto_reload={case['reload']}/via={case.get('via', 'kw')}"
            f"/env_globals={bool(case.get('eglob'))}")


def _act_str(act: dict[str, Any]) -> str:
    return repr(act["text"]) if act["ok"] else f"error {act['kind']}"


PROP = C14()
