"""Attribute-logging context objects (used by C05).

Objects are built from a JSON description so that a replay file reproduces them.

    desc := {"shape": "plain",    "id": n, "attrs": [...], "str": "default"|"custom", "magic": bool}
          | {"shape": "mapping",  ... same ..., "exposed": {key: value-desc}, "async": bool}
          | {"shape": "sequence", ... same ..., "items": [value-desc]}
          | {"shape": "liquid",   ... same ..., "liquid": scalar, "html": str}
          | {"shape": "record",   ... same ..., "items": [value-desc, value-desc]}   (a namedtuple instance)
          | {"shape": "list", "items": [value-desc]} | {"shape": "dict", "items": {key: value-desc}}
          | {"shape": "scalar", "value": json scalar}

Policy (explicit, see C05):

* every *Python-only* attribute (`attrs` that are not exposed keys, and the methods METHODS, properties PROPS
  and class attributes CATTRS that every instrumented class defines) holds or returns the unique string
  ``SENTINEL_<id>_<name>`` (id 0 for class-level things);
* the string conversions are part of the documented protocol ("string/number conversion"; the docs render a
  drop through ``__str__``), so ``__str__`` **and** ``__repr__`` return public text (``STR_<id>`` / ``REPR_<id>``)
  when the description says ``"str": "custom"``; with ``"str": "default"`` neither is defined and the default
  ``<ctxobj.PlainItem object at 0x...>`` shows a neutral class / module name only;
* class names are neutral (library error messages legitimately show ``type(x).__name__``); the *class object*
  itself prints as ``<class SENTINEL_0_class>`` through the metaclass, ``__module__`` is
  ``SENTINEL_0_module`` for classes that define their own ``__repr__``, functions carry
  ``SENTINEL_0_qualname`` as ``__qualname__`` (so a leaked bound method / class / module name is visible in
  text) and the defining module's globals contain ``GLOBAL_SENTINEL`` (reachable through
  ``__init__.__globals__`` only);
* every attribute read through ``__getattribute__`` is logged as ``(tag, "attr", name)``; calls of the method /
  property getter as ``(tag, "call", name)``; item access as ``(tag, "getitem", repr-able key)``; explicit class
  level reads of the watched names as ``(tag, "class-attr", name)``.  The objects' own protocol methods use
  ``object.__getattribute__`` so that they do not log themselves.
"""

from __future__ import annotations

from abc import ABCMeta
from collections import abc
from collections import namedtuple
from typing import Any

GLOBAL_SENTINEL = "SENTINEL_0_globals"
MARK = "SENTINEL_"

LOG: list[tuple[str, str, Any]] = []

_oget = object.__getattribute__
_tget = type.__getattribute__


def reset_log() -> None:
    del LOG[:]


class SpyMeta(ABCMeta):
    """Metaclass: sentinel-bearing repr of the class object, class-level read log."""

    def __repr__(cls) -> str:
        return f"<class {MARK}0_class>"

    def __getattribute__(cls, name: str) -> Any:
        if name in _tget(cls, "_lv_watch"):
            LOG.append((_tget(cls, "_lv_tag"), "class-attr", name))  # tag "<shape>#0": the class, not an instance
        return _tget(cls, name)


def is_spy(obj: object) -> bool:
    """True for an instrumented instance; does not read any attribute of `obj`."""
    return type(type(obj)) is SpyMeta


def is_spy_class(obj: object) -> bool:
    return type(obj) is SpyMeta


def tag_of(obj: object) -> str:
    return _oget(obj, "_lv_tag")


def sentinel(oid: int, name: str) -> str:
    return f"{MARK}{oid}_{name}"


def public(oid: int, name: str) -> str:
    return f"PUBLIC_{oid}_{name}"


# Every instrumented class defines all of these (fixed names keep the number of classes small: ABC
# instance checks get slower with every live subclass).  Method names include the str / datetime API a
# duck-typing filter might call.
METHODS = ("run", "delete", "replace", "lower", "strip", "split", "encode", "format", "strftime", "isoformat",
           "timestamp", "utcoffset", "render")
PROPS = ("is_admin", "full_name", "owner", "zone", "key")
CATTRS = ("DEFAULT_KEY", "registry", "_keys")
CLASS_LEVEL = frozenset(METHODS + PROPS + CATTRS)


def _logging_getattribute(self: Any, name: str) -> Any:
    LOG.append((_oget(self, "_lv_tag"), "attr", name))
    return _oget(self, name)


def _init(self: Any) -> None:  # a Python function, so that __init__.__globals__ exists
    return None


_init.__qualname__ = sentinel(0, "qualname")


def _make_method(name: str) -> Any:
    def method(self: Any, *args: Any, **kwargs: Any) -> str:
        LOG.append((_oget(self, "_lv_tag"), "call", name))
        return sentinel(_oget(self, "_lv_id"), name)

    method.__name__ = name
    method.__qualname__ = sentinel(0, "qualname")
    return method


def _key_repr(key: Any) -> Any:
    return key if type(key) in (str, int) else type(key).__name__


def _map_getitem(self: Any, key: Any) -> Any:
    LOG.append((_oget(self, "_lv_tag"), "getitem", _key_repr(key)))
    exposed = _oget(self, "_lv_exposed")
    if isinstance(key, str) and key in exposed:
        return exposed[key]
    raise KeyError(key)


async def _map_getitem_async(self: Any, key: Any) -> Any:
    return _map_getitem(self, key)


def _seq_getitem(self: Any, key: Any) -> Any:
    LOG.append((_oget(self, "_lv_tag"), "getitem", _key_repr(key)))
    return _oget(self, "_lv_items")[key]


_CLASSES: dict[tuple[Any, ...], type] = {}
_RECORD_BASE = namedtuple("_RECORD_BASE", ["f0", "f1"])  # noqa: PYI024


def _class_for(shape: str, custom: bool, magic: bool, use_async: bool) -> type:
    key = (shape, custom, magic, use_async)
    cls = _CLASSES.get(key)
    if cls is not None:
        return cls
    ns: dict[str, Any] = {
        "__module__": sentinel(0, "module") if custom else "ctxobj",
        "__qualname__": shape.capitalize() + "Item",
        "__getattribute__": _logging_getattribute,
        "__init__": _init,
        "_lv_id": 0,
        "_lv_tag": shape + "#0",
        "_lv_watch": CLASS_LEVEL,
    }
    for name in METHODS:
        ns[name] = _make_method(name)
    for name in PROPS:
        ns[name] = property(_make_method(name))
    for name in CATTRS:
        ns[name] = sentinel(0, name)
    if custom:
        ns["__str__"] = lambda self: f"STR_{_oget(self, '_lv_id')}"
        ns["__repr__"] = lambda self: f"REPR_{_oget(self, '_lv_id')}"
    bases: tuple[type, ...] = (object,)
    if shape == "plain":
        if magic:
            ns["__len__"] = lambda self: 3
            ns["__int__"] = lambda self: 7
    elif shape == "mapping":
        bases = (abc.Mapping,)
        ns["__getitem__"] = _map_getitem
        ns["__iter__"] = lambda self: iter(list(_oget(self, "_lv_exposed")))
        ns["__len__"] = lambda self: len(_oget(self, "_lv_exposed"))
        if use_async:
            ns["__getitem_async__"] = _map_getitem_async
    elif shape == "sequence":
        bases = (abc.Sequence,)
        ns["__getitem__"] = _seq_getitem
        ns["__len__"] = lambda self: len(_oget(self, "_lv_items"))
    elif shape == "liquid":
        ns["__liquid__"] = lambda self: _oget(self, "_lv_liquid")
        ns["__html__"] = lambda self: _oget(self, "_lv_html")
    elif shape == "record":
        # a named-tuple record (a database row): a real tuple, so items by position are public; its field
        # names, like every other Python attribute, are not part of the item protocol
        bases = (_RECORD_BASE,)
        del ns["__init__"]
    else:
        raise ValueError(shape)
    cls = SpyMeta(ns["__qualname__"], bases, ns)
    _CLASSES[key] = cls
    return cls


def _set(obj: Any, name: str, value: Any) -> None:
    object.__setattr__(obj, name, value)


def build(desc: Any) -> Any:
    """Build the Python value described by `desc`."""
    shape = desc["shape"]
    if shape == "scalar":
        return desc["value"]
    if shape == "list":
        return [build(d) for d in desc["items"]]
    if shape == "dict":
        return {k: build(d) for k, d in desc["items"].items()}

    oid = desc["id"]
    cls = _class_for(shape, desc.get("str") == "custom", bool(desc.get("magic")), bool(desc.get("async")))
    obj = cls(*[build(d) for d in desc["items"]]) if shape == "record" else cls()
    _set(obj, "_lv_id", oid)
    _set(obj, "_lv_tag", f"{shape}#{oid}")
    exposed_desc = desc.get("exposed") or {}
    for name in desc.get("attrs") or []:
        if name not in exposed_desc:
            _set(obj, name, sentinel(oid, name))
    if shape == "mapping":
        exposed = {k: build(v) for k, v in exposed_desc.items()}
        _set(obj, "_lv_exposed", exposed)
        for k, v in exposed.items():  # "a strict subset of its attribute names as keys"
            _set(obj, k, v)
    elif shape == "sequence":
        _set(obj, "_lv_items", [build(d) for d in desc.get("items") or []])
    elif shape == "liquid":
        _set(obj, "_lv_liquid", desc.get("liquid"))
        _set(obj, "_lv_html", desc.get("html", f"<i>HTML_{oid}</i>"))
    return obj


def python_only_names(desc: Any, out: set[str] | None = None) -> set[str]:
    """Names that exist on some described object as Python attributes but are not exposed by it."""
    out = set() if out is None else out
    shape = desc["shape"]
    if shape == "scalar":
        return out
    if shape == "list":
        for d in desc["items"]:
            python_only_names(d, out)
        return out
    if shape == "dict":
        for d in desc["items"].values():
            python_only_names(d, out)
        return out
    exposed = desc.get("exposed") or {}
    for n in desc.get("attrs") or []:
        if n not in exposed:
            out.add(n)
    out.update(CLASS_LEVEL)
    for d in exposed.values():
        python_only_names(d, out)
    for d in desc.get("items") or []:
        python_only_names(d, out)
    return out
