"""Environment construction and small run helpers shared by the property modules."""

from __future__ import annotations

import json
import os
from typing import Any
from typing import Coroutine

import liquid2
from liquid2 import DictLoader
from liquid2 import Environment
from liquid2 import WhitespaceControl
from liquid2.exceptions import LiquidError
from liquid2.shopify import Environment as ShopifyEnvironment

VERIF = os.path.dirname(os.path.dirname(os.path.dirname(os.path.abspath(__file__))))

TRIM = {"+": WhitespaceControl.PLUS, "-": WhitespaceControl.MINUS, "~": WhitespaceControl.TILDE}


def make_env(
    templates: dict[str, str] | None = None,
    *,
    shopify: bool = False,
    default_trim: str = "+",
    suppress: bool = True,
    shorthand: bool = False,
    undefined: Any = None,
    auto_escape: bool = False,
    globals: dict[str, Any] | None = None,  # noqa: A002
    loader: Any = None,
    limits: dict[str, Any] | None = None,
) -> Environment:
    base = ShopifyEnvironment if shopify else Environment
    attrs: dict[str, Any] = {
        "suppress_blank_control_flow_blocks": suppress,
        "shorthand_indexes": shorthand,
    }
    if limits:
        attrs.update(limits)
    cls = type("Env", (base,), attrs)
    kwargs: dict[str, Any] = {
        "loader": loader if loader is not None else DictLoader(dict(templates or {})),
        "default_trim": TRIM[default_trim],
        "auto_escape": auto_escape,
        "globals": globals,
    }
    if undefined is not None:
        kwargs["undefined"] = undefined
    return cls(**kwargs)


class Suspended(RuntimeError):
    pass


def run_coro(coro: Coroutine[Any, Any, Any]) -> Any:
    """Drive a coroutine that never really suspends (no event loop needed)."""
    try:
        coro.send(None)
    except StopIteration as stop:
        return stop.value
    coro.close()
    raise Suspended("coroutine suspended without a scheduler")


def outcome(fn: Any, *args: Any, **kwargs: Any) -> tuple[str, Any]:
    """('ok', value) | ('err', ErrorClassName) for LiquidError; other exceptions propagate."""
    try:
        return ("ok", fn(*args, **kwargs))
    except LiquidError as err:
        return ("err", type(err).__name__)


_CORPUS: list[dict[str, Any]] | None = None


def corpus() -> list[dict[str, Any]]:
    global _CORPUS
    if _CORPUS is None:
        with open(os.path.join(VERIF, "corpus", "cts.json")) as fd:
            _CORPUS = json.load(fd)["tests"]
    return _CORPUS


def liquid_version() -> str:
    return getattr(liquid2, "__version__", "?")
