"""Deterministic coroutine stepping and async drops.

Coroutines are stepped with `send(None)`.  The only suspension points are `Yield`
awaitables inside the harness' drops, so an interleaving is an explicit list of choices.
"""

from __future__ import annotations

from collections.abc import Mapping
from collections.abc import Sequence
from typing import Any
from typing import Coroutine
from typing import Iterator


import asyncio
import contextvars
import time

# When the coroutine runs inside a real asyncio event loop (file system loaders use
# run_in_executor) the drops must suspend through asyncio instead of a bare yield.
USE_ASYNCIO = [False]


# The controller of a scheduled run on a real event loop (see `_Controller`); None otherwise.
CONTROLLER: list[Any] = [None]
_OWNER: contextvars.ContextVar[int] = contextvars.ContextVar("lv_sched_owner", default=-1)


class Yield:
    """An awaitable that suspends the running coroutine exactly once."""

    def __await__(self) -> Iterator[Any]:
        ctl = CONTROLLER[0]
        if ctl is not None:
            # a gate: the controller decides when the owner goes on
            fut = ctl.loop.create_future()
            ctl.blocked.append((_OWNER.get(), fut))
            yield from fut.__await__()
        elif USE_ASYNCIO[0]:
            yield from asyncio.sleep(0).__await__()
        else:
            yield self


class AsyncMap(Mapping):  # type: ignore[type-arg]
    """A read-only mapping drop; the async getter suspends once per access.

    Pure: the value is a function of the key only."""

    def __init__(self, data: dict[str, Any], log: list[Any] | None = None) -> None:
        self._data = data
        self._log = log

    def __getitem__(self, key: Any) -> Any:
        return self._data[key]

    async def __getitem_async__(self, key: Any) -> Any:
        await Yield()
        if self._log is not None:
            self._log.append(key)
        return self._data[key]

    def __iter__(self) -> Iterator[Any]:
        return iter(self._data)

    def __len__(self) -> int:
        return len(self._data)

    def __str__(self) -> str:
        return "AsyncMap"

    def __repr__(self) -> str:  # no object address: output must be a function of the data
        return "AsyncMap"


class CountingMap(AsyncMap):
    """A drop that is NOT pure: the k-th read of an integer property returns value + k - 1.

    Sync and async renders agree on such data exactly when they evaluate every expression the
    same number of times, in the same order (a queue, a one-shot token, a counter are real examples)."""

    def __init__(self, data: dict[str, Any], log: list[Any] | None = None) -> None:
        super().__init__(data, log)
        self._reads: dict[Any, int] = {}

    def _value(self, key: Any) -> Any:
        v = self._data[key]
        if isinstance(v, int) and not isinstance(v, bool):
            k = self._reads.get(key, 0)
            self._reads[key] = k + 1
            return v + k
        return v

    def __getitem__(self, key: Any) -> Any:
        return self._value(key)

    async def __getitem_async__(self, key: Any) -> Any:
        await Yield()
        return self._value(key)

    def __str__(self) -> str:
        return "CountingMap"

    def __repr__(self) -> str:
        return "CountingMap"


class AsyncSeq(Sequence):  # type: ignore[type-arg]
    def __init__(self, data: list[Any]) -> None:
        self._data = data

    def __getitem__(self, key: Any) -> Any:
        return self._data[key]

    async def __getitem_async__(self, key: Any) -> Any:
        await Yield()
        return self._data[key]

    def __len__(self) -> int:
        return len(self._data)

    def __repr__(self) -> str:
        return "AsyncSeq"


def wrap_async(value: Any, mask: int, depth: int = 0, counting: bool = False) -> Any:
    """Wrap dicts (and some lists) of `value` in async drops; `mask` bits choose which.

    With `counting`, every nested mapping becomes a CountingMap."""
    if isinstance(value, dict):
        inner = {k: wrap_async(v, mask >> 1, depth + 1, counting) for k, v in value.items()}
        if counting and depth > 0:
            return CountingMap(inner)
        if mask & 1:
            return AsyncMap(inner)
        return inner
    if isinstance(value, list):
        inner_l = [wrap_async(v, mask >> 1, depth + 1, counting) for v in value]
        if mask & 2 and depth < 2:
            return AsyncSeq(inner_l)
        return inner_l
    return value


class Task:
    def __init__(self, coro: Coroutine[Any, Any, Any]) -> None:
        self.coro = coro
        self.done = False
        self.result: Any = None
        self.error: BaseException | None = None
        self.steps = 0

    def step(self) -> None:
        try:
            self.coro.send(None)
            self.steps += 1
        except StopIteration as stop:
            self.done = True
            self.result = stop.value
        except BaseException as err:  # noqa: BLE001
            self.done = True
            self.error = err


def run_alone_bare(coro: Coroutine[Any, Any, Any], max_steps: int = 100000) -> Task:
    task = Task(coro)
    while not task.done and task.steps < max_steps:
        task.step()
    if not task.done:
        coro.close()
        task.done = True
        task.error = RuntimeError("too many suspensions")
    return task


def run_schedule_bare(coros: list[Coroutine[Any, Any, Any]], schedule: list[int]) -> list[Task]:
    """Interleave `coros`; schedule[i] % (number of unfinished tasks) picks who steps next.
    When the schedule is exhausted the rest runs round-robin."""
    tasks = [Task(c) for c in coros]
    i = 0
    guard = 0
    while True:
        live = [t for t in tasks if not t.done]
        if not live:
            break
        guard += 1
        if guard > 200000:
            for t in live:
                t.coro.close()
                t.done = True
                t.error = RuntimeError("too many suspensions")
            break
        pick = schedule[i] % len(live) if i < len(schedule) else guard % len(live)
        i += 1
        live[pick].step()
    return tasks


def interleavings(counts: list[int], limit: int = 200) -> list[list[int]]:
    """All orderings of task indices where task j appears counts[j] times (its number
    of steps), as explicit task-index sequences; capped at `limit`."""
    out: list[list[int]] = []

    def rec(rem: list[int], acc: list[int]) -> None:
        if len(out) >= limit:
            return
        if not any(rem):
            out.append(list(acc))
            return
        for j, r in enumerate(rem):
            if r:
                rem[j] -= 1
                acc.append(j)
                rec(rem, acc)
                acc.pop()
                rem[j] += 1

    rec(list(counts), [])
    return out


def run_explicit_bare(coros: list[Coroutine[Any, Any, Any]], order: list[int]) -> list[Task]:
    """Step tasks in the explicit order of task indices (skipping finished ones), then
    finish whatever is left round-robin."""
    tasks = [Task(c) for c in coros]
    for j in order:
        if not tasks[j].done:
            tasks[j].step()
    guard = 0
    while any(not t.done for t in tasks) and guard < 200000:
        for t in tasks:
            if not t.done:
                t.step()
        guard += 1
    return tasks


# --------------------------------------------------------------------------- scheduled runs on a real event loop
#
# The bare steppers above drive coroutines with send(None): code under test that uses an asyncio primitive
# (ensure_future, a Future shared by several waiters, a Lock, run_in_executor) cannot run under them at all.
# The runs below give the same deterministic control - one suspension point per `Yield`, an interleaving is an
# explicit list of choices - on a real event loop: every `Yield` parks its coroutine on a future (a gate) that
# only the controller resolves, and the controller acts only when the loop has nothing else left to run.  Gates
# reached from a child task (ensure_future inside the code under test) belong to the top-level coroutine that
# spawned it (context variables are inherited by child tasks).

_LOOP: list[Any] = [None]


def _loop() -> Any:
    if _LOOP[0] is None or _LOOP[0].is_closed():
        _LOOP[0] = asyncio.new_event_loop()
    return _LOOP[0]


class _Controller:
    def __init__(self, loop: Any) -> None:
        self.loop = loop
        self.blocked: list[tuple[int, Any]] = []

    async def quiesce(self) -> None:
        """Return when no callback but ours is ready to run: every coroutine is parked on a gate,
        finished, or waiting for something outside the loop."""
        ready = getattr(self.loop, "_ready", None)
        if ready is None:  # not a BaseEventLoop: a fixed number of turns
            for _ in range(50):
                await asyncio.sleep(0)
            return
        await asyncio.sleep(0)
        n = 0
        while len(ready) > 0 and n < 100000:
            await asyncio.sleep(0)
            n += 1

    def release(self, owner: int) -> bool:
        for k, (o, fut) in enumerate(self.blocked):
            if o == owner:
                del self.blocked[k]
                if not fut.done():
                    fut.set_result(None)
                return True
        return False


def _run_on_loop(coros: list[Coroutine[Any, Any, Any]], chooser: Any, max_steps: int = 200000) -> list[Task]:
    """chooser(owners_blocked: list[int], live: list[int]) -> owner index to release next."""
    loop = _loop()
    ctl = _Controller(loop)
    tasks = [Task(c) for c in coros]

    async def wrapped(i: int, coro: Coroutine[Any, Any, Any]) -> None:
        _OWNER.set(i)
        t = tasks[i]
        try:
            await Yield()  # starting a coroutine is a scheduling choice as well
            t.result = await coro
        except asyncio.CancelledError:
            t.error = RuntimeError("cancelled: too many suspensions or stuck")
        except BaseException as err:  # noqa: BLE001
            t.error = err
        t.done = True

    async def main() -> None:
        ats = [loop.create_task(wrapped(i, c)) for i, c in enumerate(coros)]
        steps = 0
        stuck_since: float | None = None
        try:
            while True:
                await ctl.quiesce()
                if all(t.done for t in tasks):
                    return
                owners = sorted({o for o, _ in ctl.blocked})
                if not owners:
                    # waiting for something outside the loop (an executor thread): give it real time
                    stuck_since = stuck_since or time.monotonic()
                    if time.monotonic() - stuck_since > 20:
                        return
                    await asyncio.sleep(0.001)
                    continue
                stuck_since = None
                steps += 1
                if steps > max_steps:
                    return
                live = [i for i, t in enumerate(tasks) if not t.done]
                pick = chooser(owners, live)
                if ctl.release(pick):
                    tasks[pick].steps += 1
        finally:
            for a in asyncio.all_tasks(loop):
                if a is not asyncio.current_task() and not a.done():
                    a.cancel()
            for _ in range(3):
                await asyncio.sleep(0)

    prev = CONTROLLER[0]
    CONTROLLER[0] = ctl
    try:
        loop.run_until_complete(main())
    finally:
        CONTROLLER[0] = prev
    for t in tasks:
        if not t.done:
            t.done = True
            t.error = t.error or RuntimeError("too many suspensions")
        t.steps = max(t.steps - 1, 0)  # the start gate is not a suspension of the coroutine itself
    return tasks


def run_alone(coro: Coroutine[Any, Any, Any], max_steps: int = 100000) -> Task:
    return _run_on_loop([coro], lambda owners, live: owners[0], max_steps)[0]


def run_schedule(coros: list[Coroutine[Any, Any, Any]], schedule: list[int]) -> list[Task]:
    """Interleave `coros`; schedule[i] % (number of parked coroutines) picks who goes on next.
    When the schedule is exhausted the rest runs round-robin."""
    state = {"i": 0}

    def chooser(owners: list[int], live: list[int]) -> int:
        i = state["i"]
        state["i"] = i + 1
        return owners[(schedule[i] if i < len(schedule) else i) % len(owners)]

    return _run_on_loop(coros, chooser)


def run_explicit(coros: list[Coroutine[Any, Any, Any]], order: list[int]) -> list[Task]:
    """Let coroutines go on in the explicit order of task indices (entries naming a coroutine that is
    finished or not parked are skipped), then finish whatever is left round-robin."""
    state = {"i": 0, "rr": 0}

    def chooser(owners: list[int], live: list[int]) -> int:
        while state["i"] < len(order):
            j = order[state["i"]]
            state["i"] += 1
            if j in owners:
                return j
        state["rr"] += 1
        return owners[state["rr"] % len(owners)]

    return _run_on_loop(coros, chooser)
