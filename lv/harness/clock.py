"""A harness-controlled clock for liquid2.

liquid2 reads the clock in exactly two modules, through their `datetime` module
attribute: `liquid2.context` (`BuiltIn`: `now` -> `datetime.datetime.now()`, `today` ->
`datetime.date.today()`) and `liquid2.builtin.filters.misc` (`date`: `'now'`/`'today'`
-> `datetime.datetime.now()`, digits/ints -> `datetime.datetime.fromtimestamp()`, plus an
`isinstance(dat, (datetime.datetime, datetime.date))` check).

`fake_clock(t)` replaces that attribute in both modules with a shim module whose
`datetime` / `date` are subclasses of the real classes (so instances format, compare and
hash like real ones) with `now()` / `today()` reading the harness clock.  Their metaclass
makes `isinstance(real_datetime_instance, shim.datetime)` true, so values produced by
dateutil still pass the type check in `date`.  The real modules are restored on exit.

The clock is a number of whole seconds since 1970-01-01 00:00:00 read as *naive* time:
nothing here depends on the process time zone.  (`fromtimestamp` is the inherited real
one: a pure function of its argument for a fixed TZ; check.py pins TZ=UTC.)
"""

from __future__ import annotations

import datetime as _real
import types
from contextlib import contextmanager
from typing import Any
from typing import Iterator

EPOCH = _real.datetime(1970, 1, 1)


class Clock:
    def __init__(self, t: int = 0) -> None:
        self.t = t
        self.reads = 0

    def set(self, t: int) -> None:
        self.t = t

    def advance(self, delta: int) -> None:
        self.t += delta

    def real_now(self) -> _real.datetime:
        """The current fake time as a *real* naive datetime (for expected values)."""
        return EPOCH + _real.timedelta(seconds=self.t)


CLOCK = Clock()


class _DateTimeMeta(type):
    def __instancecheck__(cls, obj: Any) -> bool:
        return isinstance(obj, _real.datetime)

    def __subclasscheck__(cls, sub: Any) -> bool:
        return issubclass(sub, _real.datetime)


class _DateMeta(type):
    def __instancecheck__(cls, obj: Any) -> bool:
        return isinstance(obj, _real.date)

    def __subclasscheck__(cls, sub: Any) -> bool:
        return issubclass(sub, _real.date)


class FakeDateTime(_real.datetime, metaclass=_DateTimeMeta):
    @classmethod
    def now(cls, tz: Any = None) -> "FakeDateTime":
        CLOCK.reads += 1
        d = CLOCK.real_now()
        if tz is not None:
            d = d.replace(tzinfo=_real.timezone.utc).astimezone(tz)
        return cls(d.year, d.month, d.day, d.hour, d.minute, d.second, d.microsecond, d.tzinfo)

    @classmethod
    def utcnow(cls) -> "FakeDateTime":
        return cls.now()

    @classmethod
    def today(cls) -> "FakeDateTime":
        return cls.now()


class FakeDate(_real.date, metaclass=_DateMeta):
    @classmethod
    def today(cls) -> "FakeDate":
        CLOCK.reads += 1
        d = CLOCK.real_now()
        return cls(d.year, d.month, d.day)


class _Shim(types.ModuleType):
    """Stands in for the `datetime` module inside the two liquid2 modules."""

    def __init__(self) -> None:
        super().__init__("datetime")
        self.datetime = FakeDateTime
        self.date = FakeDate

    def __getattr__(self, name: str) -> Any:
        return getattr(_real, name)


SHIM = _Shim()


def _targets() -> list[Any]:
    import liquid2.builtin.filters.misc as misc
    import liquid2.context as context

    import dateutil.parser._parser as du  # completes partial dates ('10:30', 'March 5') from datetime.now()

    return [context, misc, du]


@contextmanager
def fake_clock(t: int) -> Iterator[Clock]:
    """Install the shim (clock set to `t`), yield the clock, restore the real modules."""
    mods = _targets()
    saved = [m.datetime for m in mods]
    CLOCK.set(t)
    CLOCK.reads = 0
    for m in mods:
        m.datetime = SHIM
    try:
        yield CLOCK
    finally:
        for m, old in zip(mods, saved):
            m.datetime = old


def clear_date_memo() -> bool:
    """Drop the process-wide memo behind the `date` filter, if there is one.  Only for
    keeping *cases* independent of each other; never called inside a history."""
    import liquid2.builtin.filters.misc as misc

    fn: Any = misc.date
    seen = 0
    cleared = False
    while fn is not None and seen < 5:
        cc = getattr(fn, "cache_clear", None)
        if cc is not None:
            cc()
            cleared = True
            break
        fn = getattr(fn, "__wrapped__", None)
        seen += 1
    return cleared
