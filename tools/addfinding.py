#!/usr/bin/env python3
"""Append an entry to KNOWN_FINDINGS.json (never used at check time).

usage: addfinding.py <prop> <id> fixed <commit> '<what failed>' '<witness json>'
       addfinding.py <prop> <id> known '<what fails>' '<witness json>' [bucket=..] [bucket_regex=..] [disable=a,b]
"""
import json
import os
import sys

P = os.path.join(os.path.dirname(os.path.dirname(os.path.abspath(__file__))), "KNOWN_FINDINGS.json")
kf = json.load(open(P))
a = sys.argv[1:]
prop, fid, status = a[0], a[1], a[2]
assert all(e["id"] != fid or e["property"] != prop for e in kf["findings"]), "duplicate id"
if status == "fixed":
    commit, what, wit = a[3], a[4], json.loads(a[5])
    e = {"property": prop, "id": fid, "status": "fixed", "commit": commit,
         "line": f"fixed: property={prop} {commit} {what}", "witness": wit, "description": what}
else:
    what, wit = a[3], json.loads(a[4])
    e = {"property": prop, "id": fid, "status": "known", "line": f"KNOWN-FINDING: property={prop} {what}",
         "witness": wit, "description": what}
    for kv in a[5:]:
        k, v = kv.split("=", 1)
        e[k] = v.split(",") if k == "disable" else v
kf["findings"].append(e)
json.dump(kf, open(P, "w"), indent=1, ensure_ascii=True)
print("added", prop, fid, status)
