#!/usr/bin/env python3
"""Regenerate MANIFEST.json from the table of built property checks."""
import json, os, sys

VERIF = os.path.dirname(os.path.dirname(os.path.abspath(__file__)))
sys.path.insert(0, VERIF)
from tools.claims import CLAIMS, EXTRA, NOT_BUILT  # noqa: E402

props = [json.loads(l) for l in open(os.path.join(VERIF, "properties.jsonl"))]
ids = [p["id"] for p in props]
BASELINE = ("cd /repo && /venv/bin/python -m pytest -ra -q -p no:cacheprovider --timeout=900 "
            "--continue-on-collection-errors")
checks = []
for pid in ids:
    c = CLAIMS.get(pid)
    if not c:
        continue
    checks.append({
        "property_id": pid,
        "quick_cmd": f"/venv/bin/python /verif/check.py {pid} quick",
        "thorough_cmd": f"/venv/bin/python /verif/check.py {pid} thorough",
        "evidence_file": f"/verif/evidence/{pid}.json",
        "replay_cmd_template": "/venv/bin/python /verif/check.py --replay {path}",
        "engine": "lv",
        "level_claimed": {"category": "exploration",
                          "text": c["level"] + (" Added while strengthening: " + EXTRA[pid] if pid in EXTRA else ""),
                          "design_ref": c["design_ref"]},
        "level_note": c["note"],
        "technique": c["technique"],
    })
manifest = {
    "version": 1,
    "setup_cmd": "/bin/sh /verif/setup.sh",
    "hooks": {
        "guard": "LIQUID2_VERIF",
        "enable": "no source hooks are needed: instrumentation is done in-process by the checks (wrapping in the "
                  "check's own interpreter); checks import liquid2 from /repo's working tree in a fresh interpreter",
        "baseline_off_cmd": BASELINE,
        "source_commits": [],
        "add_only": True,
    },
    "engines": [{
        "name": "lv", "path": "/verif/lv",
        "serves_properties": [c["property_id"] for c in checks],
        "kind_free_text": "Hypothesis 6.168 property-based testing (generated programs/data/histories, bounded-"
                          "exhaustive enumeration of small finite spaces) with collect-then-minimise runner; atheris "
                          "coverage-guided fuzz targets for C02/C17 in thorough tiers",
    }],
    "checks": checks,
    "notes": "All checks: /verif/check.py <id> <quick|thorough>; exit 0 held / 1 VIOLATION / 2 harness error. "
             "Known findings and fixed defects are listed in /verif/KNOWN_FINDINGS.json.",
    "not_applicable": [{"property_id": pid, "reason": NOT_BUILT.get(pid, "check not built yet in this round")}
                       for pid in ids if pid not in CLAIMS],
}
with open(os.path.join(VERIF, "MANIFEST.json"), "w") as fd:
    json.dump(manifest, fd, indent=1)
print("checks:", [c["property_id"] for c in checks])
