#!/usr/bin/env python3
"""Validate a seeded change and run our checks against it.

usage: tools/seedcheck.py <seeded dir> [--props C03,C14] [--tier quick] [--budget 120]

The seeded dir holds patch.diff, demo.py and meta.json.  A scratch worktree of /repo's HEAD
is created under /tmp, the change is confirmed there (demo passes without / fails with the
patch, the repository's own suite passes with it), our checks are run with LV_REPO pointing
at the worktree (so /repo itself is never modified), and the worktree is removed.
Results are written to <seeded dir>/result.json.
"""
import argparse, json, os, shutil, subprocess, sys, tempfile, time

VERIF = os.path.dirname(os.path.dirname(os.path.abspath(__file__)))
PY = "/venv/bin/python"


def sh(cmd, cwd=None, env=None, timeout=3600):
    p = subprocess.run(cmd, cwd=cwd, env=env, shell=isinstance(cmd, str), capture_output=True, text=True, timeout=timeout)
    return p.returncode, (p.stdout + p.stderr)


def main():
    ap = argparse.ArgumentParser()
    ap.add_argument("dir")
    ap.add_argument("--props")
    ap.add_argument("--tier", default="quick")
    ap.add_argument("--budget", default="150")
    ap.add_argument("--seeds", default="1")
    ap.add_argument("--skip-confirm", action="store_true")
    a = ap.parse_args()
    d = os.path.abspath(a.dir)
    meta = json.load(open(os.path.join(d, "meta.json")))
    props = a.props.split(",") if a.props else [meta["property"]]
    wt = tempfile.mkdtemp(prefix="seedrun-", dir="/tmp")
    os.rmdir(wt)
    result = {"confirmed": None, "checks": {}}
    try:
        rc, out = sh(["git", "-C", "/repo", "worktree", "add", "--detach", wt, "HEAD"])
        assert rc == 0, out
        # the demonstrations locate the library relative to their own path (<root>/seeded/demo.py)
        os.makedirs(os.path.join(wt, "seeded"), exist_ok=True)
        demo = os.path.join(wt, "seeded", "demo.py")
        shutil.copy(os.path.join(d, "demo.py"), demo)
        if not a.skip_confirm:
            denv = dict(os.environ)
            denv["PYTHONPATH"] = wt
            rc0, o0 = sh([PY, demo], cwd=wt, env=denv, timeout=600)
        rc, out = sh(["git", "-C", wt, "apply", "--whitespace=nowarn", os.path.join(d, "patch.diff")])
        if rc != 0:
            rc, out = sh(["git", "-C", wt, "apply", "-3", "--whitespace=nowarn", os.path.join(d, "patch.diff")])
        if rc != 0:
            # /repo has moved on since the change was written (later repairs touch the same lines)
            result["patch_applies_to_head"] = False
            result["error"] = "patch does not apply to the current HEAD: " + out[-300:]
            if not a.skip_confirm:
                result["confirmed"] = False
            return result
        if not a.skip_confirm:
            rc1, o1 = sh([PY, demo], cwd=wt, env=denv, timeout=600)
            rct, ot = sh([PY, "-m", "pytest", "-q", "-p", "no:cacheprovider", "-x"], cwd=wt, timeout=1200)
            result.update({"demo_unpatched_exit": rc0, "demo_patched_exit": rc1, "suite_patched_exit": rct,
                           "suite_tail": ot.strip().splitlines()[-1:] })
            result["confirmed"] = (rc0 == 0 and rc1 != 0 and rct == 0)
            if not result["confirmed"]:
                result["demo_unpatched_out"] = o0[-400:]
                result["demo_patched_out"] = o1[-400:]
        for prop in props:
            for seed in a.seeds.split(","):
                env = dict(os.environ)
                evd = tempfile.mkdtemp(prefix="seedev-", dir="/tmp")
                env.update({"LV_REPO": wt, "LV_EVIDENCE_DIR": evd, "LV_REPLAY_DIR": os.path.join(evd, "replays"),
                            "VERIF_SEED": seed, "LV_BUDGET_S": a.budget, "LV_NO_SHRINK": "1"})
                env.pop("LV_REEXEC", None)
                t0 = time.time()
                rc, out = sh([PY, os.path.join(VERIF, "check.py"), prop, a.tier], cwd=VERIF, env=env, timeout=7200)
                buckets = [l.strip() for l in out.splitlines() if l.strip().startswith("bucket=")]
                result["checks"][f"{prop}@seed{seed}"] = {
                    "exit": rc, "detected": rc == 1, "wall_s": round(time.time() - t0, 1),
                    "buckets": [b[:300] for b in buckets[:5]],
                    "tail": out.strip().splitlines()[-1:] }
                shutil.rmtree(evd, ignore_errors=True)
        return result
    finally:
        sh(["git", "-C", "/repo", "worktree", "remove", "--force", wt])
        shutil.rmtree(wt, ignore_errors=True)
        rp = os.path.join(d, "result.json")
        if os.path.exists(rp):
            # keep the verdicts of checks that were not re-run this time (other properties / seeds)
            try:
                prev = json.load(open(rp))
                merged = dict(prev.get("checks") or {})
                merged.update(result["checks"])
                result["checks"] = merged
                if a.skip_confirm and result.get("confirmed") is None:
                    for k in ("confirmed", "demo_unpatched_exit", "demo_patched_exit", "suite_patched_exit", "suite_tail"):
                        if k in prev:
                            result[k] = prev[k]
            except Exception:
                pass
        with open(rp, "w") as fd:
            json.dump(result, fd, indent=1)
        print(json.dumps(result, indent=1)[:3000])


if __name__ == "__main__":
    main()
