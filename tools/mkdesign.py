#!/usr/bin/env python3
"""Splice the generated tables into DESIGN.md.

DESIGN.md contains `<!-- BEGIN:<name> -->` / `<!-- END:<name> -->` marker pairs; the text between
a pair is replaced by the table generated here (FIXTABLE, KNOWNTABLE, SEEDTABLE), so the document
can be regenerated after every new fix / finding / seeded-change run.
"""
import glob
import json
import os
import re
import subprocess

VERIF = os.path.dirname(os.path.dirname(os.path.abspath(__file__)))


def esc(s: str) -> str:
    return s.replace("|", "\\|").replace("\n", " ")


def fix_table() -> str:
    kf = json.load(open(os.path.join(VERIF, "KNOWN_FINDINGS.json")))["findings"]
    by_commit: dict[str, list[dict]] = {}
    for e in kf:
        if e.get("status") == "fixed":
            by_commit.setdefault(e["commit"][:7], []).append(e)
    log = subprocess.run(["git", "-C", "/repo", "log", "--reverse", "--format=%h %s"], capture_output=True,
                         text=True).stdout.splitlines()
    rows = ["| # | commit | repair | found by | witness entries |", "|---|---|---|---|---|"]
    n = 0
    for line in log:
        h, subj = line.split(" ", 1)
        if not subj.startswith("fix:"):
            continue
        n += 1
        ents = by_commit.get(h[:7], [])
        props = sorted({e["property"] for e in ents})
        ids = ", ".join(e["id"] for e in ents)
        rows.append(f"| {n} | `{h[:7]}` | {esc(subj[4:].strip())} | {', '.join(props) or '—'} | {esc(ids) or '—'} |")
    return "\n".join(rows) + f"\n\n{n} `fix:` commits; every one leaves the repository's suite (2772 tests) passing unedited."


def known_table() -> str:
    kf = json.load(open(os.path.join(VERIF, "KNOWN_FINDINGS.json")))["findings"]
    rows = ["| property | id | what fails / why it is not repaired |", "|---|---|---|"]
    for e in kf:
        if e.get("status") == "known":
            rows.append(f"| {e['property']} | {e['id']} | {esc(e['description'])} |")
    return "\n".join(rows)


def seed_table() -> str:
    rows = ["| change | breaks | what it does (needs) | confirmed | detected by (quick tier, seed 1) |",
            "|---|---|---|---|---|"]
    for d in sorted(glob.glob(os.path.join(VERIF, "seeded", "C*"))):
        name = os.path.basename(d)
        try:
            meta = json.load(open(os.path.join(d, "meta.json")))
        except Exception:
            continue
        res = {}
        if os.path.exists(os.path.join(d, "result.json")):
            res = json.load(open(os.path.join(d, "result.json")))
        det = []
        miss = []
        for k, v in (res.get("checks") or {}).items():
            (det if v.get("detected") else miss).append(k.split("@")[0])
        summ = meta.get("summary", "")
        summ = re.split(r"(?<=[.!?])\s", summ)[0][:260]
        needs = meta.get("needs", "")[:200]
        verdict = ", ".join(sorted(set(det))) or "**missed**"
        if miss and det:
            verdict += f" (not by {', '.join(sorted(set(miss) - set(det)))})" if set(miss) - set(det) else ""
        if res.get("superseded"):
            verdict += " (superseded at HEAD: the code it edits was rewritten by a later repair)"
        elif res.get("patch_applies_to_head") is False:
            verdict += " (verdict from the tree it was written for; the patch no longer applies to HEAD)"
        note_p = os.path.join(d, "note.txt")
        if os.path.exists(note_p):
            verdict += " - " + esc(open(note_p).read().strip())
        rows.append(f"| {name} | {meta.get('property')} | {esc(summ)} — *needs:* {esc(needs)} | "
                    f"{'yes' if res.get('confirmed') else 'no' if res.get('confirmed') is False else '?'} | {verdict} |")
    return "\n".join(rows)


def main() -> None:
    p = os.path.join(VERIF, "DESIGN.md")
    s = open(p).read()
    for name, fn in (("FIXTABLE", fix_table), ("KNOWNTABLE", known_table), ("SEEDTABLE", seed_table)):
        pat = re.compile(rf"(<!-- BEGIN:{name} -->\n).*?(\n<!-- END:{name} -->)", re.S)
        if not pat.search(s):
            print("marker missing:", name)
            continue
        s = pat.sub(lambda m, fn=fn: m.group(1) + fn() + m.group(2), s)
    open(p, "w").write(s)


if __name__ == "__main__":
    main()
