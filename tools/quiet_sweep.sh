#!/bin/sh
# Run every registered quick check for several seeds; print one line per run (exit code, summary).
SEEDS="${1:-2 3 7}"
PROPS=$(python3 -c "import json; print(' '.join(c['property_id'] for c in json.load(open('MANIFEST.json'))['checks']))")
for s in $SEEDS; do for p in $PROPS; do
  out=$(VERIF_SEED=$s /venv/bin/python check.py $p quick 2>&1); rc=$?
  echo "seed=$s $p exit=$rc $(echo "$out" | grep -E '^C[0-9]+ quick' | tail -1)"
  if [ $rc -ne 0 ]; then echo "$out" | grep -E 'VIOLATION|bucket=|HARNESS' | head -8; fi
done; done
