"""Per-property claim texts for MANIFEST.json (one entry per built check)."""

NOT_BUILT: dict[str, str] = {}

CLAIMS = {
    "C02": {
        "level": "Generated-input search (Hypothesis): ~24k (quick) / ~600k (thorough) cases of Liquid-biased text, "
                 "token soup, CTS-corpus mutants and prefixes, grammar programs on hostile data and single-filter "
                 "probes; oracle = only LiquidError subclasses escape parse/render (sync and async) and every error "
                 "renders its message/context. Exploration, not proof: absence of escapes is only shown for the "
                 "explored cases.",
        "design_ref": "DESIGN.md §3 C02",
        "note": "Trusts CPython and the harness; hang detection only (20 s watchdog + 3 isolated 60 s re-runs); "
                "RecursionError from deep nesting is out of scope by the property's own quantifier.",
        "technique": "property-based fuzzing with an exception-class oracle (Hypothesis; atheris in thorough)",
    },
    "C17": {
        "level": "Generated-input search (Hypothesis): ~21k (quick) / ~500k (thorough) sources - grammar programs "
                 "printed with random layout, their truncation/edit mutants, the 995 CTS templates and corpus "
                 "mutants, Liquid-biased text; oracle = top-level tokens tile the source exactly, expression and "
                 "line-statement tokens nest in order with slices equal to their values (paths re-lex to the same "
                 "path), every node/expression/error token position lies in [0, len] and error line/column match an "
                 "independent computation. Exploration only.",
        "design_ref": "DESIGN.md §3 C17",
        "note": "An empty error span at len(source) is accepted; template-string tokens are only required to nest.",
        "technique": "property-based testing with tiling / re-lex round-trip oracle (Hypothesis)",
    },
    "C12": {
        "level": "Generated-input search (Hypothesis): ~17k (quick) / ~300k (thorough) grammar programs over the "
                 "built-in + Shopify tag set x 2 data sets x random layout, plus the valid CTS templates; oracle = "
                 "three rounds of str()->parse must each parse and give the same output / error class as the original "
                 "template for every data set; pickle.loads(pickle.dumps(t)) gives the same str() and the same "
                 "sync and async outcomes. A failing program is localised to its smallest failing statement. "
                 "Exploration only.",
        "design_ref": "DESIGN.md §3 C12",
        "note": "Behaviour is observed on the generated data sets only; a textual fixed point of str() is not "
                "demanded (the statement speaks about behaviour).",
        "technique": "property-based round-trip / differential testing (Hypothesis)",
    },
    "C10": {
        "level": "Generated-input search (Hypothesis): ~20k programs / filter-chain probes per quick run with the data "
                 "supplied on four channels (environment globals, template globals, loader matter, render arguments), "
                 "deep type-exact comparison of every supplied mapping before/after render (success or error, sync "
                 "and async); plus the complete 2^8 table of namespace-layer subsets (10,752 rendered variants) "
                 "checked against the documented precedence order. The table is exhaustive; the rest is exploration.",
        "design_ref": "DESIGN.md §3 C10",
        "note": "Position of the built-in layer (now/today) is taken from the property statement and context.py, the "
                "docs do not state it.",
        "technique": "property-based testing with before/after deep-equality oracle + exhaustive precedence table",
    },
    "C14": {
        "level": "Model-based testing: every history of length <= 3 (quick; <= 4 thorough) over a 20-operation "
                 "alphabet (sync/async load-and-render with names, namespaces and globals, split get/get/render, "
                 "modify, delete, injected load failure) x 12 configurations (CachingDict/FileSystem/Choice loader, "
                 "auto_reload on/off, capacity 1/2) is enumerated exhaustively (75,780 / 1.5M histories) and compared "
                 "step by step with an uncached reference + explicit LRU model; plus Hypothesis-generated histories of "
                 "up to 40 operations (16k / 240k). Exhaustive for the enumerated alphabet and length; exploration "
                 "beyond.",
        "design_ref": "DESIGN.md §3 C14",
        "note": "Where the statement leaves behaviour open (does a failed refresh count as a use; may a fresh fs entry "
                "consult the source) the model keeps a set of admissible LRU states. Two-task interleavings only for "
                "the dict loader; OS-thread interleavings of run_in_executor are not controlled.",
        "technique": "model-based testing: bounded-exhaustive operation histories + Hypothesis long histories vs LRU reference model",
    },
    "C20": {
        "level": "Generated-input search (Hypothesis + enumerated boundaries): ~107k cases per quick run / ~2M thorough: "
                 "string literals under every valid escaping of each character placed at 64 string sites, integer "
                 "literals to 10^40 and boundary values with exponent spellings at 11 sites, float spellings checked "
                 "against correctly rounded doubles, JSON-like values through the json filter (type-exact decode), and "
                 "a negative family of invalid literals that must raise LiquidSyntaxError. Exploration only.",
        "design_ref": "DESIGN.md §3 C20",
        "note": "An independent reference decoder for the documented escape set validates every case; the atheris "
                "byte-level target for the string scanner listed in DESIGN was not built.",
        "technique": "property-based round-trip testing (Hypothesis) of literal denotation and json decode",
    },
    "C03": {
        "level": "Differential testing of the hand-written sync/async twins: ~9k (quick) / ~225k (thorough) grammar "
                 "programs (partials in sub-directories, macros, tablerow, lambdas) x data wrapped in pure "
                 "__getitem_async__ drops x 8 loader kinds: render vs render_async, get_template vs "
                 "get_template_async, analyze vs analyze_async must agree on output or (error class, template name, "
                 "token start). ~3k (quick) schedule cases: 2-3 render_async coroutines sharing environment, loader "
                 "and optionally the Template, stepped by a deterministic scheduler - all interleavings when the total "
                 "number of steps is <= 9 (up to 130), the drawn schedule otherwise; each outcome must equal the "
                 "coroutine's outcome when run alone. Exploration; exhaustive only per small schedule case.",
        "design_ref": "DESIGN.md §3 C03",
        "note": "Interleavings only at the harness' await points (drops); run_in_executor threads of file system "
                "loaders are not controlled. Error messages are not compared.",
        "technique": "differential property-based testing + enumerated coroutine interleavings (Hypothesis)",
    },
    "C19": {
        "level": "Generated-input search (Hypothesis-seeded generators): ~120k (quick) / 6M (thorough) law instances over "
                 "~60 filters - permutation/order/stability of sort, sort_natural, sort_numeric, reverse; uniq, compact, "
                 "where/reject partition, find/find_index/has consistency, string-key vs lambda agreement, map, sum, "
                 "first/last/slice/concat/join definitions, split/join, url_encode/url_decode, base64 and "
                 "escape/escape_once inverse/idempotence laws, independent string definitions, exact integer and "
                 "decimal arithmetic - each applied at template level (result read back through json) and directly "
                 "through env.filters. Exploration only.",
        "design_ref": "DESIGN.md §3 C19",
        "note": "Reference definitions in lv/model/c19_model.py are written from docs/filter_reference.md + CTS only; "
                "clauses the docs do not determine (listed in the module's assumptions) are not asserted. Hypothesis "
                "draws one seed per case for a private PRNG (element-wise draws were 8x slower), so shrinking reduces "
                "size and seed only.",
        "technique": "property-based testing of algebraic laws and reference definitions (Hypothesis)",
    },
    "C04": {
        "level": "Generated-input search (Hypothesis + enumeration): ~20k random + 19.5k enumerated programs per quick run "
                 "under Environment(auto_escape=True) (default and Shopify registries): filter chains of length <= 5 over "
                 "every filter with tainted left values and tainted arguments, wrapped in captures, partials, macros, "
                 "loops, template strings, ternaries, translate tag/filters, block.super, tablerow; data strings are "
                 "<TAG>&TAG'TAG\" with unique tags. Oracle: no data-originated < > ' \" & reaches the output unescaped "
                 "(origin confirmed by re-rendering with the character swapped in the data), with a positive control "
                 "({{ ctl | safe }}) in every case. Exploration only.",
        "design_ref": "DESIGN.md §3 C04",
        "note": "Literals are drawn from an alphabet disjoint from HTML-significant characters and entity letters; engine "
                "markup (<br />, tablerow tags) is removed before scanning.",
        "technique": "property-based taint testing with metamorphic origin confirmation (Hypothesis)",
    },
    "C05": {
        "level": "Generated-input search (Hypothesis): ~20k cases (~190k renders) per quick run: instrumented context "
                 "objects of five shapes (plain instance, Mapping drop exposing a strict subset of keys, Sequence drop, "
                 "__liquid__/__html__ object, nestings) whose Python-only attributes, methods, properties, class and "
                 "module names carry unique sentinels, probed at ~70 lookup sites (path segments incl. dunders, "
                 ".first/.last/.size, filter keys in string and lambda form, loops, partial/with/macro arguments, "
                 "translation placeholders, json/default/date/babel filters, comparisons), sync and async. Oracle: no "
                 "sentinel in output, filter inputs/results or error messages; no read of a non-protocol attribute in "
                 "the access log; exposed keys render (positive control). Exploration only.",
        "design_ref": "DESIGN.md §3 C05",
        "note": "Permitted protocol names were derived empirically on CPython 3.12 and hard-coded in lv/props/c05.py; "
                "interpreter-level special-method lookups bypass __getattribute__ and are governed by the information-"
                "flow oracle only.",
        "technique": "property-based information-flow testing with instrumented objects (Hypothesis)",
    },
    "C09": {
        "level": "Model-free stateful testing: ~3k generated histories (quick; 40k thorough) + 64 fixed ones over shared "
                 "Environments, loaders, Templates and the module-level default environment: render / render_async / "
                 "analyze / from_string / get_template / clock advance / render with a fault injected at EVERY data "
                 "access index of the clean run / register filter or tag on one environment / two render_async "
                 "coroutines interleaved by a deterministic scheduler. After every step the same call is made on "
                 "freshly built objects under the same fake clock and must agree; time-dependent output is also compared "
                 "with the fake clock directly. Exploration; fault positions are enumerated exhaustively per history.",
        "design_ref": "DESIGN.md §3 C09",
        "note": "The fake clock replaces the datetime module attribute of liquid2.context and liquid2.builtin.filters."
                "misc in the check's interpreter only; OS threads are not involved.",
        "technique": "stateful property-based testing against fresh-object reference, fault enumeration, scheduled interleavings",
    },
    "C11": {
        "level": "Generated-input search (Hypothesis): ~8k programs (quick; 200k thorough) with partials, extends chains, "
                 "macros, lambdas, translate tags, each rendered with 6-8 data sets; runtime lookups (RenderContext.get/"
                 "get_async/resolve), keys reaching the global namespace, invoked filters and executed tags are recorded "
                 "by in-process wrapping and must be covered by one analyze() report and its helper methods; every "
                 "reported span must slice exactly the variable path / filter name / tag; analyze_async must equal "
                 "analyze field by field including spans. Exploration only.",
        "design_ref": "DESIGN.md §3 C11",
        "note": "Soundness only: over-approximation (extra globals) is not a violation, so mutants that merely add "
                "reported names are equivalent for this property. The translate tag's implicit `translations` lookup is "
                "exempt.",
        "technique": "property-based testing: runtime trace vs static report (Hypothesis)",
    },
    "C15": {
        "level": "Generated-input search (Hypothesis + enumeration): ~14k random + 6.3k enumerated templates per quick run "
                 "mixing translate blocks and the five translation filters at every expression position, nesting and "
                 "layout, with comments of all kinds; each rendered with data sets solved so that every site executes, "
                 "against a logging Translations double. Every catalog lookup from a literal site must be extracted with "
                 "the same gettext family, msgids, context and a line between the markup start and the literal; "
                 "extraction never raises; translator comments attach only to the next message. Exploration only.",
        "design_ref": "DESIGN.md §3 C15",
        "note": "Non-literal operands/contexts, translation filters that are not first in the chain and ternary tail "
                "filters are outside the claim (counted only).",
        "technique": "property-based testing: runtime catalog log vs extracted messages (Hypothesis)",
    },
    "C16": {
        "level": "Generated-input search (Hypothesis + enumeration): ~5k programs (quick) each with complete data and "
                 "every single deletion of a referenced root/property (<= 12) plus a drawn multi-deletion, under "
                 "Undefined / StrictUndefined / FalsyStrictUndefined (~30 renders per program); plus an enumerated table "
                 "of ~5.3k value-flow probes (every filter with the missing operand as left value and as argument, every "
                 "comparison and membership operator on either side, loops, ranges, keys, partial/macro arguments...). "
                 "Oracle: default policy never raises UndefinedError; strict policies raise it only after an undefined "
                 "value was created; no undefined is created for a path an independent resolver finds in scope; a strict "
                 "outcome other than UndefinedError equals the default outcome. The probe table is exhaustive for its "
                 "templates; the rest is exploration.",
        "design_ref": "DESIGN.md §3 C16",
        "note": "Undefined creations are recorded by subclassing the policy classes and by wrapping RenderContext.get in "
                "the check's interpreter.",
        "technique": "differential / metamorphic property-based testing across undefined policies (Hypothesis)",
    },
    "C13": {
        "level": "Bounded-exhaustive + generated search: every template name of <= 3 path segments (quick; <= 4 thorough, "
                 "39k names) from a path grammar ('.', '..', empty, leading/trailing/doubled separators, absolute paths "
                 "of outside files, default-extension interplay, unicode) x 5 loader kinds (FileSystem, "
                 "CachingFileSystem, Package, Choice, CachingChoice) x search-path / extension configurations x sync and "
                 "async x 4 access paths (get_template, include with the name as data, render and extends with the "
                 "name as a literal): 50k cases / 371k loads quick, 907k cases / 6.7M loads thorough, plus Hypothesis-"
                 "generated longer / unicode / NUL names. A sandbox tree of 55 token files decides: a returned template "
                 "must come from a file whose realpath is inside a configured root and be the one the reference "
                 "resolution selects; absolute or '..' names must give TemplateNotFoundError; every inside file is "
                 "loadable (completeness control). Thorough is exhaustive for the grammar; quick is not.",
        "design_ref": "DESIGN.md §3 C13",
        "note": "No symlinks in the sandbox; run_in_executor jobs of the async loaders run inline on the loop thread "
                "(LV_C13_THREADS=1 restores a pool); directories inside a root and non-Liquid exceptions are out of scope "
                "(C02).",
        "technique": "bounded-exhaustive enumeration of path names + property-based generation against a reference resolver",
    },
    "C07": {
        "level": "Generated-input search (Hypothesis): ~20k cases (~125k renders) per quick run over one shared pool of "
                 "names: non-interference oracles - caller -> callee (vary the caller's assign/capture/counter/cycle/"
                 "loop/with/outer-argument bindings, the text between sentinels around a render or call must not change), "
                 "callee -> caller (vary the callee's side effects, the caller's later text must not change), include "
                 "refused inside render/macro at every placement, block-scoped names (for/tablerow/with/partial "
                 "arguments/macro and lambda parameters/translate arguments/forloop) gone after the block incl. break/"
                 "continue, and scope/loops/template/disabled_tags balance of a harness-made RenderContext after return "
                 "or after each of 11 injected error kinds. Exploration only.",
        "design_ref": "DESIGN.md §3 C07",
        "note": "include shares the caller's scope by design (only its arguments are block scoped); loop drops and nested "
                "tablerow are kept out of the generated programs.",
        "technique": "property-based non-interference testing (Hypothesis)",
    },
    "C18": {
        "level": "Metamorphic search (Hypothesis): ~6k programs (quick; 150k thorough), each rendered under the 4 uniform "
                 "marker assignments and either all 4^n assignments (n <= 4 marker slots) or 4 drawn ones x default_trim "
                 "{+,-,~} x suppression on/off (~130 renders per program, 800k per quick run); all outputs must be equal "
                 "once whitespace (str.isspace) is removed; programs with literal control flow are additionally compared "
                 "character for character with an independent interpreter when no trimming is in force. Literal text is "
                 "drawn from every whitespace character str.strip() removes. Exploration; exhaustive per program for "
                 "small marker counts.",
        "design_ref": "DESIGN.md §3 C18",
        "note": "The exact effect of each marker (what '-' vs '~' removes, the carry rule) is not demanded here - the "
                "statement only bounds the effect to whitespace; exact trimming is checked under C01.",
        "technique": "metamorphic property-based testing over marker assignments (Hypothesis)",
    },
    "C06": {
        "level": "Generated-input search with measured boundaries: ~3.9k generated programs (loop nests of depth <= 4 of "
                 "for / tablerow / render-for / include-for crossing render, include, macro, capture, blank blocks, "
                 "block.super; text with CR/CRLF/multi-byte) each measured without limits (O output bytes, W bytes "
                 "written to all limited buffers, I executed iterations per nest via data-side probes, P product of "
                 "active loop lengths, S locals size) and then rendered under every limit in {O,W,I,P,S} +-1 and depths "
                 "2/5 (~20 renders per program), two-sided oracles (must fail above, must be byte-identical below, grey "
                 "zone where captured text counts); plus every digraph on <= 3 templates x 5 edge realisations "
                 "(include, render, macro, extends, mixed) x every start node (7,850 cases, exhaustive) and drawn "
                 "4-node graphs: recursion must end in a LiquidError, never RecursionError or the watchdog.",
        "design_ref": "DESIGN.md §3 C06",
        "note": "The local-namespace limit is defined by sys.getsizeof, so only the inequality on measured sizes and "
                "limit+-1 equivalence are checked. Success with P > limit >= I (break, ragged inner lengths) is a "
                "labelled grey zone, not a failure.",
        "technique": "property-based testing with measured-consumption boundary enumeration + exhaustive small recursion graphs",
    },
    "C08": {
        "level": "Bounded-exhaustive + generated: all inheritance chains of depth <= 3 (quick; <= 4 and 5 thorough) over "
                 "1-3 block names where each template independently omits / defines / nests / requires each block and "
                 "uses block.super (97k configurations quick, 581k thorough, modulo renaming), an error family (duplicate "
                 "blocks, two extends, mismatched endblock, unmet required, cycles of length 1-4 entered at every node, "
                 "missing parent) and Hypothesis-generated longer chains incl. chains entered through include/render "
                 "inside a block of another chain; each rendered through DictLoader and CachingDictLoader, sync and "
                 "async, and compared with an independent resolver (lv/model/inherit.py). Exhaustive for the enumerated "
                 "families; exploration beyond.",
        "design_ref": "DESIGN.md §3 C08",
        "note": "Shapes the docs do not pin down are labelled, not asserted: a chosen `required` definition that is never "
                "reached, duplicate block names without extends, mutually nested blocks that describe an infinite page.",
        "technique": "bounded-exhaustive enumeration + property-based generation against a reference resolver",
    },
    "C01": {
        "level": "Model-based generated-input search: ~18k cases per quick run / ~0.4M thorough. An independent reference "
                 "interpreter for the documented semantics (lv/model/interp*.py; no liquid2 imports; 56 filters; "
                 "whitespace control, blank-block suppression, truthiness/equality/ordering/contains, and/or/not "
                 "precedence, scope order, forloop/parentloop, limit/offset/reversed/offset:continue, counters, "
                 "cycles, captures, macros, include/render) is first calibrated against 264 examples transcribed "
                 "from the docs and the compliance suite (a contradiction is a harness error, exit 2), then compared "
                 "with render() on grammar-generated and focused programs over typed data in all 12 combinations of "
                 "default_trim x suppress_blank_control_flow_blocks x shorthand_indexes (O1), and the same program is "
                 "rendered under several printer layouts and must give identical text (O2, model-free). Constructs the "
                 "documentation does not determine are returned as `unsup` by the model and only counted. "
                 "Exploration only.",
        "design_ref": "DESIGN.md §3 C01",
        "note": "About 30% of generated programs touch undocumented behaviour and are checked by O2 only; the list is in "
                "the module's assumptions and in the evidence (labels unsup:*).",
        "technique": "model-based property testing (Hypothesis) against an independent reference interpreter + metamorphic layout independence",
    },
}

# What was added to each check after the first registration (appended to the level note by mkmanifest).
EXTRA = {
    "C01": "Model-free families: order laws (converse, asymmetry, strictness, antisymmetry, transitivity) over all pairs and "
           "triples of a 23-value scalar pool; every block tag nested in every block tag (markup and liquid-tag form); "
           "cycle-iterator identity over pairs of item lists; every modelled filter with each argument replaced by a value "
           "of every type.",
    "C02": "Also: template names (hostile strings, huge ints, any JSON value) handed to file-system / package / choice "
           "loaders from data, literals and get_template; programs rendered under generous resource limits (limited "
           "buffers and counters in use); index literals beyond the int-to-str limit.",
    "C03": "Differential cases also draw a resource limit and an undefined policy (default / strict / falsy-strict); an "
           "enumerated family puts loop_iteration_limit at product-1 / product / product+1 for every pairing of loop "
           "constructs across render / include / call / capture, and depth and output limits along partial chains.",
    "C04": "A third of the cases render through render_async.",
    "C05": "Context objects include named-tuple records; templates also try to pass `context:` / `environment:` keyword "
           "arguments to filters.",
    "C07": "Callers also sit in the overriding block of an extends chain whose base binds names around the block tag; "
           "callees loop and read forloop.parentloop; include is also tried inside (overriding) blocks of a rendered "
           "template.",
    "C08": "Error cases and a fifth of the others also run through file-system loaders with a default extension; on one "
           "caching environment the other templates of a case are rendered as pages of their own after the entry (cached "
           "history); generated chains wrap block tags in for loops and captures, print the loop variable in block bodies, "
           "include plain partials that define blocks and put text in front of `extends` (known finding).",
    "C09": "Histories also edit the (non-caching) loader's contents; fixed probes and the history's own templates are "
           "rendered on brand-new objects before and after every history to expose class- or module-level state; partial "
           "dates run under a faked dateutil clock.",
    "C10": "The table is repeated with each layer in turn binding nil and with a lambda filter whose parameter has the "
           "looked-up name running before the lookup.",
    "C11": "Generated chains mark overridden blocks `required`; the names a render/include tag binds are modelled per tag "
           "(alias or template stem).",
    "C12": "Generated programs use indirect and integer roots, keyword-named variables (`empty`, `for`, `continue`, `a b`), "
           "out-of-range float literals and empty else branches; an enumerated grid covers empty / blank branches under "
           "every combination of adjacent markers.",
    "C13": "Traversal walks are repeated with unicode look-alikes of `..` and `/`; neighbour histories ask another loader "
           "object over other directories for the same name first; a non-Liquid exception for an absolute / `..` name is a "
           "wrong-error violation.",
    "C14": "File modification times move forwards or backwards; callers' globals are ==-equal but render differently; a "
           "separate enumerated family (histories of writes / deletes / loads over two search paths) is compared directly "
           "with an uncached loader.",
    "C15": "nil counts on the translate tag; positional arguments of t / ngettext / pgettext / npgettext after keyword "
           "arguments.",
    "C16": "UndefinedError for a name no template mentions (optional settings looked up by filters) and for an operand "
           "that is never evaluated (short-circuit, branch not taken) is a violation; every filter is also probed with "
           "complete data.",
    "C17": "A quarter of the generated programs use shorthand indexes (`a.0`) under shorthand_indexes=True; error token "
           "spans must lie inside the source.",
    "C18": "Trimming environments render first; the verbatim clause is re-checked after them.",
    "C19": "String-parameter law: for every parameter documented as <string>, f(x, v) == f(x, text(v)) for nil, booleans, "
           "numbers and arrays; booleans and 1.0/0.0 among sort_numeric inputs.",
}


# added after the defect-hunter round (DESIGN.md section 0.5a)
_MORE = {
    "C01": "Empty-bodied block tags (a case with no when, an if with no body) between every pair of markers under every default trim mode.",
    "C02": "RecursionError escaping parse or render is a violation (2000 nested tags, 900-term boolean chains, 400 nested template strings, 600-deep lists are enumerated); ranges larger than len() can count in every looping construct; work proportional to the numeric value of a literal ((1..1e18) contains 'a', offset: 1e12) is detected as a hang even when it sits in a C loop (workers are hard-killed after 120 s on one case, confirmation in forked children).",
    "C03": "A quarter of the differential cases use counting drops whose integer properties change on every read, so that a differing number of evaluations in the two modes changes the output; 20 hand templates cover every tag's condition and argument positions.",
    "C04": "The origin of a bare & is confirmed with offset-preserving swaps (& -> ' and \" whose escaped forms are as long as &amp;).",
    "C06": "Recursion graphs are repeated with every edge nested in up to 12 block tags (the interpreter's stack is then the competing bound): a RecursionError is a violation.",
    "C07": "Context balance is also checked for depth-limit errors raised by each scope-pushing construct itself; the page of `render ... for` must equal the concatenation of the single-item renders (items do not see one another's assignments, captures or counters).",
    "C08": "A block may include / render the chain's own root parent (dict vs caching loader vs model); a chain that overrides nothing must render exactly like its root parent, for roots with macros, cycles, counters, loop offsets and captures around and inside their blocks.",
    "C09": "One caching loader object may serve two environments of which only one is configured.",
    "C11": "A line statement's reported span may not include the closing delimiter of its liquid tag.",
    "C12": "Keywords as variable names nested in brackets (z[true], [for]); variables called limit / reversed in array-literal iterables; pickling through all five loader kinds.",
    "C13": "Files whose names are what `..` becomes with a default extension; symbolic links planted inside the roots that lead out of them (known finding).",
    "C14": "Globals that are equal value by value yet render differently (0.0 / -0.0, key order); the documented loader.load(env, name) entry with environment globals; shadowing across the delegates of a caching choice loader.",
    "C15": "t filter with plural: nil / null, with and without a context.",
    "C17": "An error token's span must cover the text it carries; malformed-range seeds; line statements of a liquid tag must end before its closing delimiter.",
    "C18": "Explicit + at every position is verbatim under every default trim mode; a case tag may have no when.",
    "C19": "Non-numeric strings among summands; has <=> (find_index != nil) over arrays of arbitrary scalars and hashes."
}
for _k, _v in _MORE.items():
    EXTRA[_k] = (EXTRA[_k] + " " + _v) if _k in EXTRA else _v


# added after the fifth round of seeded changes (DESIGN.md section 0.6)
_ROUND5 = {
    "C03": "Interleavings run on a real event loop: every harness await point parks its coroutine on a future that only the controller resolves once the loop is idle, so code under test may use asyncio primitives (ensure_future, shared futures, locks) and is still scheduled deterministically.",
    "C08": "A third of the successful cases also edit every parent between two renders of one leaf Template object (plain dict loader): the second page is the resolution of the edited chain.",
    "C09": "Scheduled interleavings run on the real-event-loop controller as in C03.",
    "C10": "A hash bound under the same name on two channels carries its channel's mark, so merging one into the other instead of shadowing it shows as a mutation.",
    "C12": "Bounded-exhaustive boolean trees: every expression with up to three binary operators from {and, or, ==, !=, contains, <} over distinct variables and `not` at up to one (quick, 9k) / two (thorough, 32k) nodes, written fully parenthesised, x 24 data sets; integer literals at the int-to-str digit limit in exponent and plain spelling, both signs.",
    "C13": "Traversal walks rewritten with backslashes (all, first, last separator; `..\\`).",
    "C16": "Lambda bodies (comparison, negation, and/or, membership) over a property that is missing for some items only, through every lambda-taking filter.",
    "C18": "Adjacency clause: ~6k flat sources per quick run in which every marker that has no literal text on its side (next to other markup, inside a comment, at either end of the template) is re-drawn - the output must be identical character for character.",
    "C19": "has <=> (find_index != nil) <=> (where | size > 0) in the lambda forms, with predicates that are true for nil / false elements.",
}
for _k, _v in _ROUND5.items():
    EXTRA[_k] = (EXTRA[_k] + " " + _v) if _k in EXTRA else _v


# added after the sixth round of seeded changes (DESIGN.md section 0.6)
_ROUND6 = {
    "C03": "Hand family for the static analysis of partials that load partials (render -> include, include -> render, extends with includes in blocks, macros): analyze and analyze_async must agree on which scope the inner partial is analysed in.",
    "C04": "Half of the cases supply a catalog whose entries are plain strings (a translated message is trusted text, not markup; its variables are still data).",
    "C06": "A third of the generated programs run their limit renders through render_async (block.super has an async getter of its own).",
    "C07": "An earlier call / render that was handed the caller's variable leaves nothing behind for a later call of the same macro / partial that passes nothing.",
    "C09": "Hand templates whose macro definitions differ only in a default value or body and are chosen by the data or the iteration; enumerated histories with an odd and an even number of analysis passes between renders over expressions that hold lists of sub-expressions (interpolated strings, array literals, when lists, filter arguments).",
    "C12": "Cross-process pickle: templates pickled in the checking process are unpickled and rendered by another interpreter with another hash seed, where their partials are parsed afresh (cycle groups, counters, loop offsets shared with partials; a sample of the CTS templates).",
    "C15": "A third of the cases render under auto-escape and messages contain markup characters (the catalog must be asked for the text as written, in both render modes); block comments written as line statements of a liquid tag; a comment attached to a message whose markup starts more than one line after the comment's last line is a violation.",
}
for _k, _v in _ROUND6.items():
    EXTRA[_k] = (EXTRA[_k] + " " + _v) if _k in EXTRA else _v


# added after the seventh round of seeded changes (DESIGN.md section 0.6)
_ROUND7 = {
    "C02": "Every async load case follows the async call with the same call through the blocking API from inside the running coroutine, and once more async (what one API cached is served by the other).",
    "C03": "Hand templates in which a later argument of with / render / include / call names what an earlier argument of the same tag binds.",
    "C08": "Model-free: block.super referenced repeatedly (in loops, twice in a row) over parent bodies with counters and cycles must render like the flat template that has the parent's body written out at every reference.",
    "C11": "Enumerated: a partial that cannot be loaded sits in a branch the data never takes, next to partials that load; the helper methods (variables, global_variables, filter_names, tag_names and their async twins) either raise or report everything the render uses.",
    "C15": "extract_from_templates is also called with several templates, one of which ends in a translator comment that nothing follows: no message of another template may carry it.",
    "C18": "The uniform marker assignments are rendered through render_async as well and must agree with render exactly.",
}
for _k, _v in _ROUND7.items():
    EXTRA[_k] = (EXTRA[_k] + " " + _v) if _k in EXTRA else _v
