"""Per-property claim texts for MANIFEST.json (one entry per built check)."""

NOT_BUILT: dict[str, str] = {}

CLAIMS = {
    "C02": {
        "level": "Generated-input search (Hypothesis): ~24k (quick) / ~600k (thorough) cases of Liquid-biased text, "
                 "token soup, CTS-corpus mutants and prefixes, grammar programs on hostile data and single-filter "
                 "probes; oracle = only LiquidError subclasses escape parse/render (sync and async) and every error "
                 "renders its message/context. Exploration, not proof: absence of escapes is only shown for the "
                 "explored cases.",
        "design_ref": "DESIGN.md §3 C02",
        "note": "Trusts CPython and the harness; hang detection only (20 s watchdog + 3 isolated 60 s re-runs); "
                "RecursionError from deep nesting is out of scope by the property's own quantifier.",
        "technique": "property-based fuzzing with an exception-class oracle (Hypothesis; atheris in thorough)",
    },
    "C17": {
        "level": "Generated-input search (Hypothesis): ~21k (quick) / ~500k (thorough) sources - grammar programs "
                 "printed with random layout, their truncation/edit mutants, the 995 CTS templates and corpus "
                 "mutants, Liquid-biased text; oracle = top-level tokens tile the source exactly, expression and "
                 "line-statement tokens nest in order with slices equal to their values (paths re-lex to the same "
                 "path), every node/expression/error token position lies in [0, len] and error line/column match an "
                 "independent computation. Exploration only.",
        "design_ref": "DESIGN.md §3 C17",
        "note": "An empty error span at len(source) is accepted; template-string tokens are only required to nest.",
        "technique": "property-based testing with tiling / re-lex round-trip oracle (Hypothesis)",
    },
}
