"""Per-property claim texts for MANIFEST.json (one entry per built check)."""

NOT_BUILT: dict[str, str] = {}

CLAIMS = {
    "C02": {
        "level": "Generated-input search (Hypothesis): ~24k (quick) / ~600k (thorough) cases of Liquid-biased text, "
                 "token soup, CTS-corpus mutants and prefixes, grammar programs on hostile data and single-filter "
                 "probes; oracle = only LiquidError subclasses escape parse/render (sync and async) and every error "
                 "renders its message/context. Exploration, not proof: absence of escapes is only shown for the "
                 "explored cases.",
        "design_ref": "DESIGN.md §3 C02",
        "note": "Trusts CPython and the harness; hang detection only (20 s watchdog + 3 isolated 60 s re-runs); "
                "RecursionError from deep nesting is out of scope by the property's own quantifier.",
        "technique": "property-based fuzzing with an exception-class oracle (Hypothesis; atheris in thorough)",
    },
}
