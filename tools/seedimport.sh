#!/bin/sh
# seedimport.sh C03  -> copies /tmp/seed-C03/seeded/{patch,demo,meta}_{A,B} to /verif/seeded/C03-{A,B}/
P=$1
for X in A B; do
  src=/tmp/seed-$P/seeded
  [ -f $src/patch_$X.diff ] || continue
  d=/verif/seeded/$P-$X; mkdir -p $d
  cp $src/patch_$X.diff $d/patch.diff; cp $src/demo_$X.py $d/demo.py; cp $src/meta_$X.json $d/meta.json
done
ls /verif/seeded | grep $P
