#!/bin/sh
# seedimport.sh C03 [dir-prefix] [letters]  -> copies <prefix>-C03/seeded/{patch,demo,meta}_X to /verif/seeded/C03-X/
P=$1; PRE=${2:-/tmp/seed}; LET=${3:-"A B"}
for X in $LET; do
  src=$PRE-$P/seeded
  [ -f $src/patch_$X.diff ] || continue
  d=/verif/seeded/$P-$X; mkdir -p $d
  cp $src/patch_$X.diff $d/patch.diff; cp $src/demo_$X.py $d/demo.py; cp $src/meta_$X.json $d/meta.json
done
ls /verif/seeded | grep $P
