#!/venv/bin/python
"""Single entry point:  check.py <Cnn> <quick|thorough>  |  check.py --replay <file>

Exit 0: property held on everything explored (KNOWN-FINDING lines allowed)
Exit 1: `VIOLATION property=<id> replay=<path>` printed
Exit 2: harness error (never a VIOLATION)
"""

from __future__ import annotations

import os
import sys

VERIF = os.path.dirname(os.path.abspath(__file__))
PY = "/venv/bin/python"


def _reexec() -> None:
    repo = os.environ.get("LV_REPO", "/repo")
    want = {
        "PYTHONHASHSEED": "0",
        "TZ": "UTC",
        "PYTHONPATH": os.pathsep.join([repo, VERIF, os.path.join(VERIF, ".deps")]),
        "LV_REEXEC": "1",
        "PYTHONDONTWRITEBYTECODE": "1",
    }
    if os.environ.get("LV_REEXEC") == "1" and os.path.realpath(sys.executable) == os.path.realpath(PY):
        return
    env = dict(os.environ)
    env.update(want)
    os.execve(PY, [PY, os.path.abspath(__file__), *sys.argv[1:]], env)


def main() -> int:
    _reexec()
    os.chdir(VERIF)
    repo = os.environ.get("LV_REPO", "/repo")
    try:
        import liquid2

        if not os.path.realpath(liquid2.__file__).startswith(os.path.realpath(repo) + os.sep):
            print(f"HARNESS-ERROR: liquid2 imported from {liquid2.__file__}, not {repo}", file=sys.stderr)
            return 2
        from lv.core import runner
    except Exception:
        import traceback

        traceback.print_exc()
        print("HARNESS-ERROR: import failed", file=sys.stderr)
        return 2

    args = sys.argv[1:]
    try:
        if len(args) == 2 and args[0] == "--replay":
            return runner.replay(args[1])
        if len(args) == 2 and args[1] in ("quick", "thorough"):
            seed = int(os.environ.get("VERIF_SEED", "1") or "1")
            return runner.run_property(args[0].upper(), args[1], seed)
    except Exception:
        import traceback

        traceback.print_exc()
        print("HARNESS-ERROR: runner failed", file=sys.stderr)
        return 2
    print(__doc__, file=sys.stderr)
    return 2


if __name__ == "__main__":
    sys.exit(main())
