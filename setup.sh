#!/bin/sh
# Offline setup: make sure hypothesis is importable from /venv; atheris (optional, thorough tiers) into /verif/.deps
set -e
cd /verif
if ! /venv/bin/python -c "import hypothesis" 2>/dev/null; then
  /venv/bin/pip install --no-index --find-links /opt/veriftools/wheels hypothesis
fi
if ! PYTHONPATH=/verif/.deps /venv/bin/python -c "import atheris" 2>/dev/null; then
  /venv/bin/pip install --no-index --find-links /opt/veriftools/wheels --target /verif/.deps atheris >/dev/null 2>&1 || echo "atheris not installed (thorough fuzz targets will be skipped)"
fi
mkdir -p /verif/evidence /verif/replays
/venv/bin/python - <<'PY'
import json, hypothesis
json.load(open('/verif/corpus/cts.json'))
print('setup ok: hypothesis', hypothesis.__version__)
PY
